"""C14 -- the language server depends only on the current buffers and survives any request."""
import json
import os
import random
import re
import sys

import common
from common import Proc, log

sys.path.insert(0, os.path.join(common.ROOT, "drivers"))
sys.path.insert(0, os.path.join(common.ROOT, "gen"))
import g_hist  # noqa: E402
import lsp_client  # noqa: E402
from lsp_client import LspServer, make_params  # noqa: E402

ENTRY = "main.asm"
OUT_OF_RANGE = ("eol1", "eolfar", "eofline", "eoffar", "inchar", "huge", "nofile")
FIRST_BASED = ("textDocument/hover", "textDocument/definition", "textDocument/rename")   # `defs.first()` of a hash map


def is_file_name(name):
    return "://" not in name and not name.startswith("untitled:")


# ----------------------------------------------------------------------------- canonical forms
def strip_root(obj, root):
    s = json.dumps(obj, sort_keys=True)
    s = s.replace(lsp_client.path_to_uri(root), "<root>").replace("file://" + root, "<root>").replace(root, "<root>")
    return json.loads(s)


def rkey(r):
    return (r["start"]["line"], r["start"]["character"], r["end"]["line"], r["end"]["character"])


def canon_reply(method, reply, root):
    """canonical, root-independent form; results that come out of hash maps are sorted"""
    if reply.kind != "result":
        return reply.canon()
    v = strip_root(reply.value, root)
    if v is None:
        return {"result": None}
    if method == "textDocument/completion":
        v = sorted(i["label"] for i in (v if isinstance(v, list) else v.get("items", [])))
    elif method in ("textDocument/references",):
        v = sorted((l["uri"], rkey(l["range"])) for l in v)
    elif method == "textDocument/documentHighlight":
        v = sorted(rkey(h["range"]) for h in v)
    elif method == "workspace/symbol":
        v = sorted((s["name"], s["location"]["uri"], rkey(s["location"]["range"]), s.get("containerName")) for s in v)
    elif method == "textDocument/documentSymbol":
        def ds(x):
            return (x["name"], rkey(x["range"]), sorted(ds(c) for c in x.get("children") or []))
        v = sorted(ds(x) for x in v)
    elif method == "textDocument/rename":
        ch = v.get("changes") or {}
        v = {u: sorted((rkey(e["range"]), e["newText"]) for e in es) for u, es in ch.items()}
    return {"result": v}


def canon_diags(by_name, root):
    out = {}
    for name, ds in by_name.items():
        # anonymous scopes are numbered in hash order of pending imports (F-C10b): not part of the comparison
        l = sorted((re.sub(r"\$scope_\d+", "$scope", strip_root(d["message"], root)), rkey(d["range"])) for d in ds)
        if l:
            out[name] = l      # "never published" and "published empty" look the same to the user
    return out


# ----------------------------------------------------------------------------- oracle 3: well-formed positional results
def line_table(text):
    return [l.rstrip("\r") for l in text.split("\n")]


def pos_inside(lines, p):
    return p["line"] < len(lines) and p["character"] <= g_hist.utf16_len(lines[p["line"]])


def range_problems(rng_, lines, what):
    out = []
    if lines is None:
        return ["%s refers to a document that does not exist" % what]
    for k in ("start", "end"):
        if not pos_inside(lines, rng_[k]):
            out.append("%s: %s %d:%d lies outside the document (%d lines%s)" % (
                what, k, rng_[k]["line"], rng_[k]["character"], len(lines),
                (", line has %d UTF-16 units" % g_hist.utf16_len(lines[rng_[k]["line"]])) if rng_[k]["line"] < len(lines) else ""))
    if (rng_["end"]["line"], rng_["end"]["character"]) < (rng_["start"]["line"], rng_["start"]["character"]):
        out.append("%s: end before start" % what)
    return out


def collect_ranges(method, value, req_uri):
    """[(uri, range, description)] for every range in a response"""
    out = []
    if value is None:
        return out
    if method == "textDocument/prepareRename":
        r = value.get("range", value) if isinstance(value, dict) else None
        if r and "start" in r:
            out.append((req_uri, r, "prepareRename range"))
    elif method == "textDocument/definition":
        for l in (value if isinstance(value, list) else [value]):
            if "targetUri" in l:
                out.append((l["targetUri"], l["targetRange"], "definition targetRange"))
                out.append((l["targetUri"], l["targetSelectionRange"], "definition targetSelectionRange"))
                if l.get("originSelectionRange"):
                    out.append((req_uri, l["originSelectionRange"], "definition originSelectionRange"))
            else:
                out.append((l["uri"], l["range"], "definition range"))
    elif method == "textDocument/references":
        out += [(l["uri"], l["range"], "reference") for l in value]
    elif method == "textDocument/documentHighlight":
        out += [(req_uri, h["range"], "highlight") for h in value]
    elif method == "textDocument/rename":
        for u, es in (value.get("changes") or {}).items():
            out += [(u, e["range"], "rename edit") for e in es]
    elif method in ("textDocument/formatting", "textDocument/onTypeFormatting"):
        out += [(req_uri, e["range"], "formatting edit") for e in value]
    elif method == "textDocument/codeLens":
        out += [(req_uri, c["range"], "code lens") for c in value]
    elif method == "workspace/symbol":
        out += [(s["location"]["uri"], s["location"]["range"], "workspace symbol " + s["name"]) for s in value]
    elif method == "textDocument/documentSymbol":
        def walk(x):
            out.append((req_uri, x["range"], "document symbol " + x["name"]))
            out.append((req_uri, x["selectionRange"], "document symbol selection " + x["name"]))
            for c in x.get("children") or []:
                walk(c)
        for x in value:
            walk(x)
    elif method == "textDocument/hover":
        if isinstance(value, dict) and value.get("range"):
            out.append((req_uri, value["range"], "hover range"))
    return out


def decode_tokens(data):
    toks, line, col = [], 0, 0
    for i in range(0, len(data) - 4, 5):
        dl, dsx, ln, ty, mod = data[i:i + 5]
        if dl:
            line += dl
            col = dsx
        else:
            col += dsx
        toks.append((line, col, ln, ty, mod))
    return toks


def token_problems(data, lines):
    out = []
    if len(data) % 5:
        out.append("semantic token data length %d is not a multiple of 5" % len(data))
    toks = decode_tokens(data)
    for i, t in enumerate(toks):
        if t[2] == 0:
            out.append("semantic token %d at %d:%d has length 0" % (i, t[0], t[1]))
        if i and (toks[i - 1][0], toks[i - 1][1] + toks[i - 1][2]) > (t[0], t[1]):
            out.append("semantic tokens %d and %d overlap or are out of order: %r %r" % (i - 1, i, toks[i - 1][:3], t[:3]))
        if lines is not None and (t[0] >= len(lines) or t[1] + t[2] > g_hist.utf16_len(lines[t[0]])):
            out.append("semantic token %d (%d:%d len %d) lies outside the document" % (i, t[0], t[1], t[2]))
    return out


# ----------------------------------------------------------------------------- running histories
class Session:
    """the history server + the bookkeeping the oracle needs"""

    def __init__(self, mos, hist, workdir):
        self.mos, self.hist, self.workdir = mos, hist, workdir
        self.srv = LspServer(mos, disk=hist["disk"], workdir=workdir)
        self.buffers = {}

    def overlay(self):
        o = dict(self.hist["disk"])
        o.update(self.buffers)
        return o

    def close(self):
        self.srv.kill()


def fresh_server(mos, overlay, workdir):
    """a freshly started server that is given only the final contents: every file of the overlay is what it finds, the entry
    point is opened (one analysis, one round of publishDiagnostics)."""
    s = LspServer(mos, disk={n: t for n, t in overlay.items() if is_file_name(n)}, workdir=workdir)
    if ENTRY in overlay:
        s.did_open(ENTRY, overlay[ENTRY])
    return s


def send_request(srv, ev):
    p = make_params(srv, ev["method"], ev["file"], ev.get("line", 0), ev.get("ch", 0), new_name=ev.get("new", "renamed"),
                    query=ev.get("query", ""))
    return srv.request(ev["method"], p)


def multi_def_position(fresh, ev):
    """more than one definition covers the position (F-C16a territory: answers of first()-based handlers are not a
    function of anything) -- detected through the protocol: references(includeDeclaration) lists >1 span covering it"""
    r = send_request(fresh, dict(ev, method="textDocument/references"))
    if r.kind != "result" or not r.value:
        return False
    n = 0
    for l in r.value:
        a, b = l["range"]["start"], l["range"]["end"]
        if a["line"] <= ev["line"] <= b["line"] and a["character"] <= ev["ch"] <= b["character"] and \
                fresh.name_of(l["uri"]) == ev["file"]:
            n += 1
    return n > 1


class Outcome:
    def __init__(self):
        self.failures = []      # (kind, what, event index)
        self.requests = 0
        self.nontrivial = 0
        self.diag_checks = 0
        self.diag_nontrivial = 0
        self.dist = {}

    def bump(self, k, n=1):
        self.dist[k] = self.dist.get(k, 0) + n


def check_history(mos, hist, workdir, out, compare_every_prefix=True, stop_at_first=True):
    """runs the history against the real server and evaluates the three oracles; returns the list of failures
    [(kind, what, index of the event after which it was observed)]"""
    ses = Session(mos, hist, workdir)
    srv = ses.srv
    fails = []
    try:
        for idx, ev in enumerate(hist["events"]):
            kind = ev["ev"]
            out.bump("ev_" + kind)
            if kind in ("open", "change"):
                (srv.did_open if kind == "open" else srv.did_change)(ev["file"], ev["text"])
                if is_file_name(ev["file"]):
                    ses.buffers[ev["file"]] = ev["text"]
            elif kind == "close":
                srv.did_close(ev["file"])
                ses.buffers.pop(ev["file"], None)
            if kind != "req":
                if not compare_every_prefix and idx != len(hist["events"]) - 1:
                    continue
                b = srv.barrier()
                if not b.ok:
                    fails.append(("liveness", "the server %s while handling %s of %s: %s" % (
                        "died" if b.kind == "died" else "stopped answering", kind, ev["file"], b.stderr[-300:].strip()), idx))
                    break
                fr = fresh_server(mos, ses.overlay(), workdir)
                try:
                    fb = fr.barrier()
                    if not fb.ok:
                        fails.append(("liveness", "a fresh server given the buffers %s: %s" % (fb.kind, fb.stderr[-300:].strip()), idx))
                        break
                    dh = canon_diags(srv.diagnostics_by_name(), srv.dir)
                    df = canon_diags(fr.diagnostics_by_name(), fr.dir)
                    out.diag_checks += 1
                    if dh or df:
                        out.diag_nontrivial += 1
                    if dh != df:
                        names = sorted(n for n in set(dh) | set(df) if dh.get(n) != df.get(n))
                        fails.append(("diagnostics", "after %s of %s the diagnostics last published for %s are %s; a fresh server "
                                      "given the same buffers publishes %s" % (kind, ev["file"], names, {n: dh.get(n, []) for n in names},
                                                                               {n: df.get(n, []) for n in names}), idx))
                finally:
                    fr.kill()
                if fails and stop_at_first:
                    break
                continue
            # ---- a request
            out.requests += 1
            out.bump("req_" + ev["method"].split("/")[-1])
            out.bump("pos_" + ev["cls"])
            rh = send_request(srv, ev)
            if not rh.ok:
                fails.append(("liveness", "%s at %s %d:%d (%s) got no response: server %s: %s" % (
                    ev["method"], ev["file"], ev["line"], ev["ch"], ev["cls"], rh.kind,
                    " ".join(rh.stderr.split("panicked at")[-1].split())[:300]), idx))
                break
            ov = ses.overlay()
            fr = fresh_server(mos, ov, workdir)
            try:
                rf = send_request(fr, ev)
                ch, cf = canon_reply(ev["method"], rh, srv.dir), canon_reply(ev["method"], rf, fr.dir)
                nontriv = ev["cls"] in OUT_OF_RANGE or (rh.kind == "result" and rh.value not in (None, [], {}))
                if nontriv:
                    out.nontrivial += 1
                if ch != cf:
                    if ev["method"] in FIRST_BASED and rf.ok and multi_def_position(fr, ev):
                        out.bump("skipped_multi_definition_position")
                    else:
                        fails.append(("answer", "%s at %s %d:%d (%s): server after the history answers %s; a fresh server given the "
                                      "same buffers answers %s" % (ev["method"], ev["file"], ev["line"], ev["ch"], ev["cls"],
                                                                   json.dumps(ch)[:400], json.dumps(cf)[:400]), idx))
                # well-formedness (against the documents the answer refers to)
                if rh.kind == "result" and rh.value is not None:
                    req_uri = srv.uri(ev["file"])
                    for uri, r_, what in collect_ranges(ev["method"], rh.value, req_uri):
                        name = srv.name_of(uri)
                        lines = line_table(ov[name]) if name in ov else None
                        for p in range_problems(r_, lines, "%s of %s (%s)" % (what, ev["method"], name)):
                            fails.append(("range", p, idx))
                    if ev["method"] == "textDocument/semanticTokens/full":
                        lines = line_table(ov[ev["file"]]) if ev["file"] in ov else None
                        out.bump("semantic_tokens", len(rh.value.get("data", [])) // 5)
                        for p in token_problems(rh.value.get("data", []), lines):
                            fails.append(("tokens", p, idx))
            finally:
                fr.kill()
            if fails and stop_at_first:
                break
    finally:
        ses.close()
    return fails


# ----------------------------------------------------------------------------- corpus
def load_corpus():
    d = os.path.join(common.ROOT, "corpus", "C14")
    out = []
    if os.path.isdir(d):
        for fn in sorted(os.listdir(d)):
            if fn.endswith(".json"):
                h = json.load(open(os.path.join(d, fn), encoding="utf-8"))
                h["name"] = fn
                out.append(h)
    return out


def shrink(mos, hist, workdir, kind):
    """drop events while a failure of the same kind remains (greedy, one pass from the end)"""
    ev = list(hist["events"])
    i = len(ev) - 2
    budget = 60
    while i >= 0 and budget > 0:
        cand = ev[:i] + ev[i + 1:]
        budget -= 1
        f = check_history(mos, {"disk": hist["disk"], "events": cand}, workdir, Outcome())
        if f and f[0][0] == kind:
            ev = cand[:f[0][2] + 1]
            i = min(i, len(ev) - 1)
        i -= 1
    return {"disk": hist["disk"], "events": ev}


def run(chk):
    rng = random.Random(chk.seed)
    thorough = chk.tier == "thorough"
    mos = common.build_mos()
    workdir = os.path.join(common.CACHE, "work")
    os.makedirs(workdir, exist_ok=True)
    out = Outcome()
    n_hist = 400 if thorough else 45
    hists = load_corpus() + [g_hist.gen_history(rng) for _ in range(n_hist)]
    seen_fail_kinds = {}
    for hi, hist in enumerate(hists):
        fails = check_history(mos, hist, workdir, out)
        chk.sample({"history": hist.get("name", "generated-%d" % hi), "events": len(hist["events"]),
                    "first_events": hist["events"][:3]}, limit=3)
        for kind, what, idx in fails:
            key = (kind, what.split(":")[0][:60])
            if key in seen_fail_kinds:
                seen_fail_kinds[key] += 1
                continue
            seen_fail_kinds[key] = 1
            small = shrink(mos, {"disk": hist["disk"], "events": hist["events"][:idx + 1]}, workdir, kind)
            chk.oracle_failure(None, "%s: %s" % (kind, what), {"history": small, "kind": kind, "from": hist.get("name", "generated-%d" % hi)})
    chk.count(out.requests + out.diag_checks, out.nontrivial + out.diag_nontrivial)
    chk.cov["rule"] = "histories"
    chk.extra["distribution"] = dict(out.dist, histories=len(hists), requests=out.requests, diag_checks=out.diag_checks)
    return chk.finish()


def replay(chk, path):
    obj = json.load(open(path, encoding="utf-8"))
    hist = obj["replay"]["history"] if "replay" in obj else obj
    mos = common.build_mos()
    workdir = os.path.join(common.CACHE, "work")
    os.makedirs(workdir, exist_ok=True)
    fails = check_history(mos, hist, workdir, Outcome(), stop_at_first=False)
    print(json.dumps({"events": hist["events"], "disk": hist["disk"], "failures": fails}, indent=1, ensure_ascii=False))
    return 1 if fails else 0

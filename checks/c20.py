"""C20 -- shutdown is clean in every session state.

The real `mos lsp -p <port>` is brought into each session state (no debugger attached / debugger attached and idle /
a test running under the debugger / paused at a breakpoint), then an editor script is played against it (LSP
`shutdown`, `exit`, closing stdin, a DAP `disconnect` + socket close, in a given order) and we observe: exit status,
time to exit against a bound two orders of magnitude above normal, whether the debug port is released, whether the
process is gone.
  * oracle: the observed outcome class must be the one the property demands (spec_exit_code of spec/model Life.v,
    extracted): exit 0 after shutdown+exit and after a pipe close, exit 1 when `shutdown` is not followed by `exit`;
    port released; no process left;
  * correspondence: the observed class must be among the outcomes the extracted lifecycle model (under the variant read
    from the Rust source, Gen/LifeSites.v) has for that (state, script) over all interleavings.
Timing never decides anything except "still alive after the bound" = Hang.
"""
import json
import os
import random
import socket
import sys
import time

import common
from common import Proc, log

sys.path.insert(0, os.path.join(common.ROOT, "drivers"))

SRC = 'nop\n.test "t" {\nldx #0\nloop:\ninx\njmp loop\n}\n'
STATES = ["none", "idle", "running", "paused", "dead", "dead_poisoned", "dead_port", "launch_in_flight"]
# a big edit keeps the language server busy (holding its context lock) for a few seconds: a DAP `launch` sent meanwhile has to wait
FILLER_LINES = 6000
BIG_SRC = SRC + "".join(".const filler_%d = %d + 1\n" % (i, i) for i in range(FILLER_LINES))
LIVE_STATES = STATES[:4]
QUICK_ORDERS = [["shutdown", "exit"], ["close"], ["disconnect", "shutdown", "exit"], ["shutdown", "disconnect", "exit"]]
MORE_ORDERS = [["exit"], ["shutdown", "close"], ["shutdown", "exit", "disconnect"], ["close", "disconnect"], ["disconnect", "close"],
               ["exit", "close"], ["shutdown", "exit", "close"], ["disconnect", "exit"],
               # a (second) debugger front end connects to the debug port while the editor shuts down
               ["connect", "shutdown", "exit"], ["shutdown", "connect", "exit"], ["connect", "close"], ["disconnect", "connect", "shutdown", "exit"]]
SLOW_ORDERS = [["shutdown"]]                      # lsp-server waits 30 s for `exit`, then start() fails: exit status 1
NORMAL_BOUND = 30.0                               # normal time to exit is 0.02 - 0.1 s
SLOW_BOUND = 30.0 + 45.0
IN_FLIGHT_BOUND = 200.0                           # with a launch in flight the session first finishes the launch (it assembles the big
                                                  # program again, ~2 s) before it sees the shutdown: normal time to exit is ~2 s


UNREACHABLE = set()      # dead-thread session states that can no longer be produced through the protocol (handlers repaired)


def model_state(state):
    if state == "launch_in_flight":
        return {"dead": "launch_in_flight", "attached": True, "machine": "none"}
    if state in ("dead", "dead_poisoned", "dead_port"):
        return {"dead": "dead_poisoned" if state == "dead_poisoned" else "dead", "attached": False, "machine": "none"}
    return {"attached": state != "none", "machine": {"running": "running", "paused": "paused"}.get(state, "none")}


class Session:
    """one `mos lsp` process in a given session state"""

    def __init__(self, mos, state, workdir):
        from lsp_client import LspServer
        from dap_client import DapSession
        self.state = state
        self.dap = None
        self.extra_socks = []
        self.setup_error = None
        self.blocker = None
        if state == "dead_port":
            # the debug port is taken when `mos lsp` starts: DebugSession::start panics ("Couldn't listen on port"), the debug-server
            # thread is dead from the beginning (a way into the dead-thread state that does not depend on any request handler)
            import lsp_client
            self.blocker = socket.socket()
            self.blocker.bind(("127.0.0.1", 0))
            self.blocker.listen(1)
            taken = self.blocker.getsockname()[1]
            orig = lsp_client.free_port
            lsp_client.free_port = lambda: taken
            try:
                self.lsp = LspServer(mos, disk={"main.asm": SRC}, workdir=workdir)
            finally:
                lsp_client.free_port = orig
            self.lsp.did_open("main.asm", SRC)
            self.lsp.barrier()
            self._await_thread_death()
        elif state == "none":
            self.lsp = LspServer(mos, disk={"main.asm": SRC}, workdir=workdir)
            self.lsp.did_open("main.asm", SRC)
            self.lsp.barrier()
        else:
            self.dap = DapSession(mos, SRC, workdir=workdir)
            self.lsp = self.dap.lsp
            if state in ("idle", "launch_in_flight"):
                r = self.dap.request("initialize", {"adapterID": "mos", "linesStartAt1": True, "columnsStartAt1": True})
            elif state == "running":
                r = self.dap.handshake("t")
            elif state == "dead":
                # a `pause` between launch and configurationDone panics the debug-server thread
                # ("Should never receive any machine events during launch")
                r = self.dap.handshake("t", configuration_done=False)
                if r.ok:
                    self.dap.request("pause", {"threadId": 1}, timeout=10)
                    self._await_thread_death()
            elif state == "dead_poisoned":
                # `launch` without a mos.toml: config().unwrap() panics while the thread holds the LSP context lock
                os.remove(os.path.join(self.lsp.dir, "mos.toml"))
                r = self.dap.request("initialize", {"adapterID": "mos", "linesStartAt1": True, "columnsStartAt1": True})
                if r.ok:
                    self.dap.request("launch", {"workspace": self.lsp.dir, "testRunner": {"testCaseName": "t"}}, timeout=3)
                    self._await_thread_death()
            else:
                r = self.dap.handshake("t", breakpoints=[5])
                if r.ok:
                    ev = self.dap.wait_event("stopped", timeout=30)
                    if ev is None:
                        self.setup_error = "no stopped event"
            if not r.ok:
                self.setup_error = "debugger handshake failed: %r" % (r,)
        self.port = self.lsp.port
        self.pid = self.lsp.p.pid

    def _await_thread_death(self):
        for _ in range(100):
            if "panicked at" in self.lsp.stderr_tail(4000):
                return
            time.sleep(0.02)
        self.setup_error = "the debug-server thread did not panic (the handler may have been repaired: drop this session state)"

    def _pump_lsp(self, cond, seconds):
        """read LSP messages until cond() holds; False when the deadline passes or the server's stdout ends first"""
        deadline = time.time() + seconds
        while not cond():
            m = self.lsp._read_msg(min(deadline, time.time() + 0.5))
            if m is not None:
                self.lsp._dispatch(m)
            elif self.lsp.eof or time.time() >= deadline:
                return cond()
        return True

    def play_in_flight(self, script, rng):
        """the editor sends a big edit (and, if the script starts with it, `shutdown` back to back); the debugger sends `launch`
        while the edit is being analysed; the rest of the script follows once the analysis is over (its diagnostics have arrived),
        so that the time to exit is measured from a quiet server"""
        trace = []
        lsp = self.lsp
        n0 = len(lsp.diag_log)
        lsp.did_change("main.asm", BIG_SRC)
        rest = list(script)
        rid = None
        if rest and rest[0] == "shutdown":
            rid = lsp.next_id
            lsp.next_id += 1
            lsp._send({"jsonrpc": "2.0", "id": rid, "method": "shutdown", "params": None})
            rest = rest[1:]
        time.sleep(rng.choice([0.25, 0.4, 0.5]))
        self.dap.send_request("launch", {"workspace": lsp.dir, "testRunner": {"testCaseName": "t"}})
        trace.append(("launch", "sent during the analysis"))
        if rest and rest[0] == "close":
            # the pipe is closed while the edit is still being analysed
            try:
                lsp.p.stdin.close()
            except Exception:
                pass
            trace.append(("close", "done"))
            rest = rest[1:]
        t0 = time.time()
        analysed = self._pump_lsp(lambda: len(lsp.diag_log) > n0 or lsp.eof, 300.0)
        trace.append(("analysis", "done after %.1fs" % (time.time() - t0) if analysed else "NOT finished within 300 s"))
        self.analysed = analysed
        if rid is not None:
            got = self._pump_lsp(lambda: rid in lsp.pending or lsp.eof, NORMAL_BOUND)
            trace.append(("shutdown", "result" if rid in lsp.pending else ("died" if lsp.eof else "no answer %d s after the analysis" % int(NORMAL_BOUND))))
        return trace + self.play(rest, rng, 0.0, False)

    def play(self, script, rng, jitter, pipelined):
        trace = []
        for a in script:
            if jitter:
                time.sleep(rng.uniform(0, jitter))
            if a == "shutdown":
                r = self.lsp.request("shutdown", None, timeout=20)
                trace.append(("shutdown", getattr(r, "kind", None)))
            elif a == "exit":
                try:
                    self.lsp.notify("exit", None)
                    trace.append(("exit", "sent"))
                except Exception as e:
                    trace.append(("exit", "not sent: %s" % type(e).__name__))
            elif a == "close":
                try:
                    self.lsp.p.stdin.close()
                except Exception:
                    pass
                trace.append(("close", "done"))
            elif a == "connect":
                try:
                    c = socket.create_connection(("127.0.0.1", self.port), timeout=2.0)
                    self.extra_socks.append(c)
                    trace.append(("connect", "connected"))
                except OSError as e:
                    trace.append(("connect", "refused"))
            elif a == "disconnect":
                if self.dap is not None and self.dap.sock is not None:
                    r = self.dap.request("disconnect", {}, timeout=10)
                    try:
                        self.dap.sock.close()
                    except Exception:
                        pass
                    self.dap.sock = None
                    trace.append(("disconnect", r.kind))
                else:
                    trace.append(("disconnect", "no debugger"))
        return trace

    def observe(self, bound):
        t0 = time.time()
        st = self.lsp.wait_exit(bound)
        elapsed = time.time() - t0
        stderr = self.lsp.stderr_tail(600)
        obs = {"exit_status": st, "elapsed": round(elapsed, 3)}
        if st is None:
            obs["class"] = "hang"
        elif st == 0:
            obs["class"] = "exit0"
        elif st == 1:
            obs["class"] = "exit1"
        elif st == 101:
            obs["class"] = "panic101"
        else:
            obs["class"] = "exit%d" % st
        if self.blocker is not None:
            self.blocker.close()
            self.blocker = None
        if st is not None:
            # debug port released: nobody listens, and it can be bound again
            try:
                c = socket.create_connection(("127.0.0.1", self.port), timeout=1.0)
                c.close()
                obs["port_still_accepts"] = True
            except OSError:
                obs["port_still_accepts"] = False
            try:
                b = socket.socket()
                b.setsockopt(socket.SOL_SOCKET, socket.SO_REUSEADDR, 1)
                b.bind(("127.0.0.1", self.port))
                b.close()
                obs["port_rebindable"] = True
            except OSError as e:
                obs["port_rebindable"] = False
                obs["bind_error"] = str(e)
            obs["process_left"] = os.path.exists("/proc/%d" % self.pid) and _not_zombie_of_ours(self.pid)
        if st not in (0,):
            obs["stderr"] = stderr[-400:]
        return obs

    def close(self):
        if self.blocker is not None:
            self.blocker.close()
        for c in self.extra_socks:
            try:
                c.close()
            except Exception:
                pass
        try:
            if self.dap is not None:
                self.dap.close()
            else:
                self.lsp.kill()
        except Exception:
            pass


def _not_zombie_of_ours(pid):
    try:
        with open("/proc/%d/stat" % pid) as f:
            return f.read().split(")")[-1].split()[0] != "Z"
    except OSError:
        return False


def run_scenario(chk, mos, model, state, script, rng, workdir, jitter, dist, tag):
    if len(chk.violations) >= 5:
        dist["skipped_after_5_violations"] = dist.get("skipped_after_5_violations", 0) + 1
        return                                   # the verdict is decided; do not spend the budget on more of the same
    bound = SLOW_BOUND if script in SLOW_ORDERS else NORMAL_BOUND
    if state == "launch_in_flight":
        bound = IN_FLIGHT_BOUND if not dist.get("hang_in_flight") else 20.0   # one hang of this state established with the full bound
    elif dist.get("hang", 0) >= 2:
        bound = min(bound, 5.0)                  # two hangs were established with the full bound already
    m = model.call(dict(cmd="outcomes", script=script, **model_state(state)))
    if "outcomes" not in m:
        chk.tie_break("model", "mosmodel_c20 failed: %s" % m, {"state": state, "script": script})
        return
    if state in UNREACHABLE:
        dist["dead_state_unreachable"] = dist.get("dead_state_unreachable", 0) + 1
        return
    for attempt in range(3):
        sess = None
        try:
            sess = Session(mos, state, workdir)
            if sess.setup_error and state.startswith("dead") and "did not panic" in sess.setup_error:
                # the request handlers that used to kill the debug thread have been repaired: this state cannot be produced
                # through the protocol any more (the model still covers it)
                dist["dead_state_unreachable"] = dist.get("dead_state_unreachable", 0) + 1
                UNREACHABLE.add(state)      # established once per run; do not wait for the panic again
                return
            if sess.setup_error:
                if attempt < 2:
                    continue
                chk.tie_break("setup", "could not reach session state %s: %s" % (state, sess.setup_error), {"state": state})
                return
            trace = sess.play_in_flight(script, rng) if state == "launch_in_flight" else sess.play(script, rng, jitter, False)
            obs = sess.observe(bound)
            port_taken = state != "dead_port" and "Couldn't listen on port" in sess.lsp.stderr_tail(4000)
        except Exception as e:
            if attempt < 2:
                continue
            chk.tie_break("driver", "scenario %s/%s could not be played: %s: %s" % (state, script, type(e).__name__, e), {"state": state, "script": script})
            return
        finally:
            if sess is not None:
                sess.close()
        if port_taken and attempt < 2:
            # another process took the debug port between the client's choice and mos' bind: not the scenario we wanted to see
            dist["port_taken_retries"] = dist.get("port_taken_retries", 0) + 1
            continue
        break
    want = "exit%d" % int(m["expect"])
    dist[obs["class"]] = dist.get(obs["class"], 0) + 1
    if state == "launch_in_flight" and obs["class"] == "hang":
        dist["hang_in_flight"] = dist.get("hang_in_flight", 0) + 1
    if state == "launch_in_flight" and not getattr(sess, "analysed", True):
        chk.tie_break("setup", "the big edit was not analysed within 300 s: the in-flight scenario did not take place", {"state": state, "script": script})
        return
    dist["max_elapsed"] = max(dist.get("max_elapsed", 0.0), obs["elapsed"])
    rec = {"state": state, "script": script, "trace": trace, "observed": obs, "demanded": want, "model_outcomes": m["outcomes"], "tag": tag}
    chk.count(1, 1 if state != "none" or len(script) > 1 else 0)
    chk.sample(rec, limit=6)
    # oracle: what the property demands
    problems = []
    if obs["class"] != want:
        problems.append("outcome %s, demanded %s" % (obs["class"], want))
    if obs["exit_status"] is not None:
        if obs.get("port_still_accepts"):
            problems.append("the debug port still accepts connections after exit")
        if not obs.get("port_rebindable", True):
            problems.append("the debug port cannot be bound again (%s)" % obs.get("bind_error"))
        if obs.get("process_left"):
            problems.append("the process is still there")
    if problems:
        chk.oracle_failure(None, "session state %s, script %s: %s" % (state, "+".join(script), "; ".join(problems)), rec)
    # correspondence: the model must allow what was seen
    if obs["class"] not in m["outcomes"]:
        chk.tie_break("correspondence:outcome", "state %s, script %s: the binary ended as %s, the model allows only %s" % (
            state, "+".join(script), obs["class"], m["outcomes"]), rec)


def run(chk):
    rng = random.Random(chk.seed)
    thorough = chk.tier == "thorough"
    common.translate_for(chk, ["life"])
    chk.proof = common.prove("C20")
    # no coqchk here: it re-evaluates the exhaustive sweeps of LifeProofs/LifeProofs2 and needs more than 10 minutes (measured);
    # run `coqchk -o -silent -Q theories Mos Mos.props.C20` in coq/ by hand (last result: no axioms, 2026-10-01)
    model = Proc([common.build_model("c20")])
    mos = common.build_mos()
    workdir = os.path.join(common.CACHE, "work")
    os.makedirs(workdir, exist_ok=True)
    dist = {}
    chk.extra["variant"] = model.call({"cmd": "variant"})
    broken = bool(chk.tie_breaks) or chk.proof["discharged"] < chk.proof["obligations"]
    corpus = []
    cpath = os.path.join(common.ROOT, "corpus", "C20", "scenarios.json")
    if os.path.exists(cpath):
        corpus = json.load(open(cpath))
    try:
        for sc in corpus:
            run_scenario(chk, mos, model, sc["state"], sc["script"], rng, workdir, 0.0, dist, "corpus")
        orders = list(QUICK_ORDERS)
        extra = list(MORE_ORDERS)
        rng.shuffle(extra)
        orders_extra = extra if (thorough or broken) else extra[:3]
        for state in STATES:
            for script in orders:
                run_scenario(chk, mos, model, state, script, rng, workdir, 0.0, dist, "grid")
        for script in orders_extra:
            for state in (STATES if (thorough or broken) else [rng.choice(STATES), rng.choice(STATES[1:])]):
                run_scenario(chk, mos, model, state, script, rng, workdir, 0.0, dist, "extra")
        if thorough or broken:
            for rep in range(10 if thorough else 3):
                for state in STATES:
                    for script in orders:
                        run_scenario(chk, mos, model, state, script, rng, workdir, 0.05, dist, "jitter%d" % rep)
            for state in ("none", "paused"):
                for script in SLOW_ORDERS:
                    run_scenario(chk, mos, model, state, script, rng, workdir, 0.0, dist, "slow")
    finally:
        model.stop()
    chk.cov["rule"] = ("scenarios = session state (no debugger / attached idle / test running / paused at a breakpoint) x editor script over "
                       "{shutdown, exit, close stdin, DAP disconnect+close}: the 4x4 grid of the property (shutdown+exit, pipe close, disconnect first, "
                       "disconnect between shutdown and exit), the corpus witnesses, and further orders (exit alone, shutdown then close, disconnect "
                       "after exit, ...; all of them and 10 jittered repetitions of the grid in the thorough tier, plus shutdown without exit = 30 s); "
                       "each played against a fresh real `mos lsp`; non-trivial = a debugger is attached or the script has more than one action")
    chk.extra["distribution"] = dist
    chk.assumptions = [
        "partial: process exit, sockets, OS threads and the scheduler are runtime behaviour; the model carries the lifecycle logic (who holds which "
        "reference / sender, who blocks where, who wakes whom) and is explored over all interleavings, the check samples the real binary",
        "the machine thread and the poller of a test run are never waited for on the shutdown path (model: machine state enables no step); "
        "`bind` of the debug port is assumed to succeed; no new debugger connects while the editor shuts down",
        "a hang is reported only when the process is still alive %d s after the last script action (normal: < 0.1 s); with a launch in flight "
        "(normal: ~2 s, the launch is completed first) the bound is %d s, counted from a server that has finished analysing the edit" % (int(NORMAL_BOUND), int(IN_FLIGHT_BOUND)),
    ]
    return chk.finish(extra_trusted=[
        "translate/t_life.py (the five code shapes that select the model variant; census of holders of the LSP connection / context)",
        "drivers/lsp_client.py (dev-c14), drivers/dap_client.py (dev-c19): the real stdio / TCP interfaces",
        "extract/driver_c20.ml (outcome enumeration over the extracted step function)"])


def replay(chk, path):
    obj = json.load(open(path))
    rp = obj["replay"]
    mos = common.build_mos()
    model = Proc([common.build_model("c20")])
    workdir = os.path.join(common.CACHE, "work")
    os.makedirs(workdir, exist_ok=True)
    rng = random.Random(obj.get("seed", 0))
    sess = Session(mos, rp["state"], workdir)
    try:
        trace = sess.play_in_flight(rp["script"], rng) if rp["state"] == "launch_in_flight" else sess.play(rp["script"], rng, 0.0, False)
        obs = sess.observe(SLOW_BOUND if rp["script"] in SLOW_ORDERS else NORMAL_BOUND)
    finally:
        sess.close()
    m = model.call(dict(cmd="outcomes", script=rp["script"], **model_state(rp["state"])))
    model.stop()
    print(json.dumps({"state": rp["state"], "script": rp["script"], "trace": trace, "observed": obs, "model": m}, indent=1))
    return 0 if obs["class"] == "exit%d" % int(m["expect"]) else 1

"""Shared machinery of ./check: builds, translators, Coq proving, model/implementation drivers,
verdict logic, evidence."""
import fcntl
import hashlib
import json
import os
import re
import select
import subprocess
import sys
import time

ROOT = os.path.dirname(os.path.dirname(os.path.abspath(__file__)))
REPO = os.environ.get("MOS_REPO", "/repo")
# VERIF_OUT (used by tools/mutcheck only): a scratch directory that holds everything a run writes (copy of coq/, extracted
# code, cargo targets, evidence), so that a check can be run against a scratch worktree of /repo (MOS_REPO) without
# touching /verif's own build products.  Registered checks never set it.
OUT = os.environ.get("VERIF_OUT", ROOT)
CACHE = os.path.join(OUT, ".cache")
COQ = os.path.join(OUT, "coq")
EVIDENCE = os.path.join(OUT, "evidence")
GENML = os.path.join(OUT, "extract", "gen")
GUARD = "mos_verif"
sys.path.insert(0, os.path.join(ROOT, "translate"))

ENV = dict(os.environ)
ENV.update({"CARGO_NET_OFFLINE": "true", "RUST_BACKTRACE": "0", "CARGO_TERM_COLOR": "never"})


def log(*a):
    print("[check]", *a, file=sys.stderr, flush=True)


def clean(out):
    return "\n".join(l for l in out.splitlines() if not l.startswith("WARNING conda."))


def run(cmd, timeout=1800, cwd=None, env=None, input=None):
    """run a command; on timeout the whole process group is killed and (124, output so far) is returned"""
    e = dict(ENV)
    if env:
        e.update(env)
    p = subprocess.Popen(cmd, cwd=cwd, env=e, stdin=subprocess.PIPE if input is not None else subprocess.DEVNULL,
                         stdout=subprocess.PIPE, stderr=subprocess.STDOUT, text=True, shell=isinstance(cmd, str),
                         start_new_session=True)
    try:
        out, _ = p.communicate(input=input, timeout=timeout)
        return p.returncode, clean(out)
    except subprocess.TimeoutExpired:
        try:
            os.killpg(p.pid, 9)
        except Exception:
            p.kill()
        try:
            out, _ = p.communicate(timeout=30)
        except Exception:
            out = ""
        return 124, clean(out or "") + "\n[timeout after %ss: %s]" % (timeout, cmd if isinstance(cmd, str) else " ".join(cmd))


class Lock:
    def __init__(self, name):
        os.makedirs(CACHE, exist_ok=True)
        self.path = os.path.join(CACHE, name + ".lock")

    def __enter__(self):
        self.f = open(self.path, "w")
        fcntl.flock(self.f, fcntl.LOCK_EX)
        return self

    def __exit__(self, *a):
        fcntl.flock(self.f, fcntl.LOCK_UN)
        self.f.close()


# ----------------------------------------------------------------------------- builds
def build_probe(crate="harness", binary="mosprobe"):
    """a probe crate of /verif (default harness/ -> mosprobe): path-dependency on /repo/mos-core, rebuilt from the
    current working tree.  Further crates (harness_<x>/) get their own target directory and lock."""
    tname = "target-probe" if crate == "harness" else "target-" + crate
    with Lock("cargo-" + crate):
        h = os.path.join(ROOT, crate)
        if REPO != "/repo":
            # scratch worktree: build a copy of the crate whose path dependencies point into it
            import shutil
            h2 = os.path.join(CACHE, crate + "-src")
            shutil.rmtree(h2, ignore_errors=True)
            shutil.copytree(h, h2, ignore=shutil.ignore_patterns("target"))
            ct = os.path.join(h2, "Cargo.toml")
            txt = open(ct).read().replace('"/repo/', '"%s/' % REPO)
            open(ct, "w").write(txt)
            h = h2
        lock_src = os.path.join(REPO, "Cargo.lock")
        with open(lock_src) as f:
            want = f.read()
        dst = os.path.join(h, "Cargo.lock")
        # keep the harness lock file derived from /repo's (plus the harness package itself)
        if not os.path.exists(dst):
            with open(dst, "w") as f:
                f.write(want)
        t0 = time.time()
        rc, out = run(["cargo", "build", "--offline", "--quiet"], cwd=h,
                      env={"CARGO_TARGET_DIR": os.path.join(CACHE, tname)}, timeout=1500)
        if rc != 0:
            # retry once with a fresh lock copy
            with open(dst, "w") as f:
                f.write(want)
            rc, out = run(["cargo", "build", "--offline", "--quiet"], cwd=h,
                          env={"CARGO_TARGET_DIR": os.path.join(CACHE, tname)}, timeout=1500)
        if rc != 0:
            raise BuildError(binary + " does not build against /repo/mos-core:\n" + out[-3000:])
        log("%s built in %.1fs" % (binary, time.time() - t0))
        return os.path.join(CACHE, tname, "debug", binary)


def build_mos(hooks=True, release=False):
    """the real `mos` binary from /repo's working tree (hooks on by default)."""
    with Lock("cargo-mos"):
        tdir = os.path.join(CACHE, "target-mos-hooks" if hooks else "target-mos")
        env = {"CARGO_TARGET_DIR": tdir}
        if hooks:
            env["RUSTFLAGS"] = "--cfg " + GUARD
        cmd = ["cargo", "build", "--offline", "--quiet", "-p", "mos"]
        if release:
            cmd.append("--release")
            env["CARGO_PROFILE_RELEASE_LTO"] = "false"
        t0 = time.time()
        rc, out = run(cmd, cwd=REPO, env=env, timeout=2400)
        if rc != 0:
            raise BuildError("mos does not build:\n" + out[-3000:])
        log("mos built in %.1fs" % (time.time() - t0))
        return os.path.join(tdir, "release" if release else "debug", "mos")


class BuildError(Exception):
    pass


# ----------------------------------------------------------------------------- translators
TRANSLATORS = {}


def register_translators():
    """every translate/t_<name>.py that defines translate() is registered under <name>"""
    tdir = os.path.join(ROOT, "translate")
    for fn in sorted(os.listdir(tdir)):
        if fn.startswith("t_") and fn.endswith(".py"):
            try:
                mod = __import__(fn[:-3])
            except Exception as e:  # a translator that cannot even be imported is a broken tie for whoever asks for it
                log("translator %s not importable: %s" % (fn, e))
                continue
            if hasattr(mod, "translate"):
                TRANSLATORS[fn[2:-3]] = mod.translate


# ----------------------------------------------------------------------------- Coq
def coq_prepare():
    """_CoqProject is regenerated from the .v files present under coq/theories (sorted; coqdep orders the build);
    the Makefile is regenerated when that list changes."""
    files = []
    for d, _, fs in os.walk(os.path.join(COQ, "theories")):
        for f in fs:
            if f.endswith(".v") and not f.startswith("."):
                files.append(os.path.relpath(os.path.join(d, f), COQ))
    files.sort()
    want = "-Q theories Mos\n" + "\n".join(files) + "\n"
    prj = os.path.join(COQ, "_CoqProject")
    mk = os.path.join(COQ, "Makefile")
    have = open(prj).read() if os.path.exists(prj) else ""
    if have != want or not os.path.exists(mk):
        with open(prj, "w") as f:
            f.write(want)
        rc, out = run(["coq_makefile", "-f", "_CoqProject", "-o", "Makefile"], cwd=COQ)
        if rc != 0:
            raise BuildError("coq_makefile failed: " + out)
        dep = os.path.join(COQ, ".Makefile.d")
        if os.path.exists(dep):
            os.remove(dep)


COQC_FILE_TIMEOUT = 900

ALLOWED_AXIOMS = {
    # standard-library axioms only; none is declared by this development
    "functional_extensionality_dep",
    "FunctionalExtensionality.functional_extensionality_dep",
    "Eqdep.Eq_rect_eq.eq_rect_eq",
    "eq_rect_eq",
    "JMeq_eq",
    "JMeq.JMeq_eq",
    "proof_irrelevance",
    "ProofIrrelevance.proof_irrelevance",
    "classic",
    "Classical_Prop.classic",
}


def coq_make(targets, timeout=1500, pre=None):
    with Lock("coq"):
        if pre is not None:
            pre()       # runs under the lock (prove(): removing the .vo must not race with another check's full build)
        coq_prepare()
        t0 = time.time()
        # every single coqc is bounded too, so that one diverging file cannot stall the others for the whole time limit
        rc, out = run(["make", "-j16", "-k", "COQC=timeout -k 10 %d coqc" % COQC_FILE_TIMEOUT] + targets, cwd=COQ, timeout=timeout)
        log("coq make %s: rc=%d in %.1fs" % (" ".join(targets), rc, time.time() - t0))
        return rc, out


def forbidden_scan():
    """no Admitted/admit/Axiom/... anywhere in the development (generated files included)."""
    bad = []
    pat = re.compile(r"\b(Admitted|admit|Axiom|Axioms|Parameter|Parameters|Conjecture|Admit Obligations|Unset Guard Checking|"
                     r"bypass_check|Unset Positivity Checking|Unset Universe Checking|type-in-type|impredicative-set)\b")
    for d, _, fs in os.walk(os.path.join(COQ, "theories")):
        for f in fs:
            if f.endswith(".v"):
                p = os.path.join(d, f)
                txt = open(p, encoding="utf-8").read()
                # strip comments (non-nested approximation is enough: development avoids the words in comments)
                txt2 = re.sub(r"\(\*.*?\*\)", " ", txt, flags=re.S)
                for m in pat.finditer(txt2):
                    bad.append("%s: %s" % (os.path.relpath(p, ROOT), m.group(1)))
    prj = open(os.path.join(COQ, "_CoqProject")).read()
    if "-type-in-type" in prj or "impredicative" in prj:
        bad.append("_CoqProject: forbidden flag")
    # Variable/Hypothesis outside a section
    for d, _, fs in os.walk(os.path.join(COQ, "theories")):
        for f in fs:
            if f.endswith(".v"):
                p = os.path.join(d, f)
                depth = 0
                txt = re.sub(r"\(\*.*?\*\)", " ", open(p, encoding="utf-8").read(), flags=re.S)
                for line in txt.splitlines():
                    s = line.strip()
                    if re.match(r"Section\s+\w+\s*\.", s):
                        depth += 1
                    elif re.match(r"End\s+\w+\s*\.", s) and depth > 0:
                        depth -= 1
                    elif depth == 0 and re.match(r"(Variable|Variables|Hypothesis|Hypotheses|Context)\b", s):
                        bad.append("%s: %s outside a section" % (os.path.relpath(p, ROOT), s.split()[0]))
    return bad


def prove(prop_file, pins=None):
    """Compile props/<prop_file>.v (and what it depends on); parse theorems and their Print Assumptions.

    returns dict(obligations, discharged, theorems=[{name, ok, assumptions}], log, failed=[names], error)"""
    vpath = os.path.join(COQ, "theories", "props", prop_file + ".v")
    src = open(vpath, encoding="utf-8").read()
    src_nc = re.sub(r"\(\*.*?\*\)", " ", src, flags=re.S)
    names = re.findall(r"^\s*Theorem\s+(\w+)", src_nc, re.M)
    # every theorem must be closed by `exact <lemma>.` and followed by Print Assumptions
    structure_errors = []
    for n in names:
        m = re.search(r"Theorem\s+%s\b.*?Proof\.\s*exact\s+[\w.@ ()]+\.\s*Qed\.\s*Print Assumptions %s\." % (n, n), src_nc, re.S)
        if not m:
            structure_errors.append(n)
    vo = os.path.join(COQ, "theories", "props", prop_file + ".vo")
    # force recompilation of the props file so that Print Assumptions output is produced (under the coq lock: otherwise a
    # concurrent build of everything can recreate the .vo in between and this make prints no assumptions at all)
    def _drop():
        if os.path.exists(vo):
            os.remove(vo)
    rc, out = coq_make(["theories/props/%s.vo" % prop_file], pre=_drop)
    theorems = []
    # split output: Print Assumptions results appear in order
    blocks = []
    cur = None
    for line in out.splitlines():
        if line.startswith("Closed under the global context"):
            blocks.append([])
            cur = None
        elif line.startswith("Axioms:"):
            cur = []
            blocks.append(cur)
        elif cur is not None:
            if re.match(r"^\s+:", line) or re.match(r"^\s{2,}", line):
                continue
            m = re.match(r"^([\w.']+)\s*:?", line)
            if m and not line.startswith(("COQC", "COQDEP", "make", "File ", "Error")):
                cur.append(m.group(1))
            else:
                cur = None
    failed_line = None
    mm = re.search(r'File "\./theories/props/%s\.v", line (\d+)' % prop_file, out)
    if mm:
        failed_line = int(mm.group(1))
    dep_fail = rc != 0 and failed_line is None
    discharged = 0
    for i, n in enumerate(names):
        if i < len(blocks) and not dep_fail:
            ax = blocks[i]
            bad_ax = [a for a in ax if a not in ALLOWED_AXIOMS and a.split(".")[-1] not in ALLOWED_AXIOMS]
            ok = not bad_ax and n not in structure_errors
            theorems.append({"name": n, "ok": ok, "assumptions": ax or ["Closed under the global context"]})
            if ok:
                discharged += 1
        else:
            theorems.append({"name": n, "ok": False, "assumptions": ["<not checked: compilation failed>"]})
    forbidden = forbidden_scan()
    if forbidden:
        # an Admitted/Axiom/... anywhere in the development voids every theorem
        for t in theorems:
            t["ok"] = False
        discharged = 0
    failed = [t["name"] for t in theorems if not t["ok"]]
    err = None
    if rc != 0:
        em = re.search(r"(File \"[^\"]+\", line \d+.*?)(?:\nmake|\Z)", out, re.S)
        err = em.group(1)[:1500] if em else out[-1500:]
    return {"obligations": len(names), "discharged": discharged, "theorems": theorems, "failed": failed,
            "error": err if not forbidden else "forbidden constructs: " + "; ".join(forbidden[:10]), "rc": rc if not forbidden else 1,
            "structure_errors": structure_errors, "forbidden": forbidden,
            "checker_cmd": "make -C coq -j16 theories/props/%s.vo  (coqc 8.16.1, full .vo build; Print Assumptions parsed)" % prop_file}


def coqchk(check, prop_file, timeout=1500):
    """thorough tiers: re-check props/<prop_file>.vo and everything it depends on with the independent checker and
    make sure it reports no axioms; anything else is a broken proof obligation (tie break)."""
    with Lock("coq"):
        t0 = time.time()
        rc, out = run(["coqchk", "-o", "-silent", "-Q", "theories", "Mos", "Mos.props." + prop_file], cwd=COQ, timeout=timeout)
    axioms = None
    m = re.search(r"\* Axioms:\s*(.*?)(?:\n\s*\n|\n\* |\Z)", out, re.S)
    if m:
        axioms = " ".join(m.group(1).split())
    check.extra["coqchk"] = {"rc": rc, "axioms": axioms, "seconds": round(time.time() - t0, 1), "tail": out[-300:]}
    if rc != 0 or axioms is None or axioms != "<none>":
        check.tie_break("coqchk", "coqchk does not accept props/%s.vo without axioms (rc=%s, axioms=%s): %s" % (prop_file, rc, axioms, out[-600:]))
    log("coqchk %s: rc=%s axioms=%s in %.1fs" % (prop_file, rc, axioms, time.time() - t0))


def build_model(unit="model"):
    """extract a model unit to OCaml and build its driver.

    unit "model": theories/extract/Extract.v -> extract/gen/model.ml, driver extract/driver.ml -> .cache/mosmodel
    unit "<u>"  : theories/extract/Extract_<u>.v -> extract/gen/<u>.ml, driver = `open <U>` + extract/prelude.ml +
                  extract/driver_<u>.ml -> .cache/mosmodel_<u>"""
    with Lock("model-" + unit):
        vo = "theories/extract/Extract.vo" if unit == "model" else "theories/extract/Extract_%s.vo" % unit
        rc, out = coq_make([vo])
        if rc != 0:
            raise BuildError("model extraction failed (%s):\n" % unit + out[-3000:])
        gen = GENML
        os.makedirs(gen, exist_ok=True)
        exe = os.path.join(CACHE, "mosmodel" if unit == "model" else "mosmodel_" + unit)
        bdir = os.path.join(CACHE, "ocaml-build" if unit == "model" else "ocaml-build-" + unit)
        os.makedirs(bdir, exist_ok=True)
        ml, mli = os.path.join(gen, unit + ".ml"), os.path.join(gen, unit + ".mli")
        if not os.path.exists(ml):
            # the .vo was up to date but the generated files are gone: force re-extraction
            os.remove(os.path.join(COQ, vo))
            rc, out = coq_make([vo])
            if rc != 0 or not os.path.exists(ml):
                raise BuildError("model extraction failed (%s):\n" % unit + out[-3000:])
        if unit == "model":
            drv = open(os.path.join(ROOT, "extract", "driver.ml"), "rb").read()
        else:
            drv = (("open %s\n" % (unit[0].upper() + unit[1:])).encode()
                   + open(os.path.join(ROOT, "extract", "prelude.ml"), "rb").read()
                   + b"\n" + open(os.path.join(ROOT, "extract", "driver_%s.ml" % unit), "rb").read())
        parts = [open(ml, "rb").read(), open(mli, "rb").read(), drv]
        stamp = hashlib.sha256(b"\0".join(parts)).hexdigest()
        stamp_file = exe + ".stamp"
        if os.path.exists(exe) and os.path.exists(stamp_file) and open(stamp_file).read() == stamp:
            return exe
        for name, data in ((unit + ".ml", parts[0]), (unit + ".mli", parts[1]), ("driver.ml", parts[2])):
            with open(os.path.join(bdir, name), "wb") as fo:
                fo.write(data)
        t0 = time.time()
        rc, out = run(["ocamlfind", "ocamlopt", "-inline", "50", "-w", "-a", "-package", "str", "-linkpkg",
                       unit + ".mli", unit + ".ml", "driver.ml", "-o", exe], cwd=bdir, timeout=900)
        if rc != 0:
            raise BuildError("mosmodel (%s) does not build:\n" % unit + out[-3000:])
        open(stamp_file, "w").write(stamp)
        log("mosmodel %s built in %.1fs" % (unit, time.time() - t0))
        return exe


# ----------------------------------------------------------------------------- line-protocol processes
class Proc:
    """JSON-lines child with a per-request watchdog; a hang or crash is reported, the child restarted."""

    def __init__(self, argv, cwd=None, env=None, timeout=20.0):
        self.argv, self.cwd, self.timeout = argv, cwd, timeout
        e = dict(ENV)
        if env:
            e.update(env)
        self.env = e
        self.p = None
        self.restarts = 0

    def start(self):
        self.p = subprocess.Popen(self.argv, cwd=self.cwd, env=self.env, stdin=subprocess.PIPE, stdout=subprocess.PIPE,
                                  stderr=subprocess.DEVNULL, bufsize=0)
        self.buf = b""

    def stop(self):
        if self.p:
            try:
                self.p.kill()
                self.p.wait()
            except Exception:
                pass
            self.p = None

    def call(self, req, timeout=None):
        if self.p is None or self.p.poll() is not None:
            self.start()
        line = (json.dumps(req) + "\n").encode()
        try:
            self.p.stdin.write(line)
            self.p.stdin.flush()
        except BrokenPipeError:
            self.stop()
            return {"crash": "broken pipe"}
        deadline = time.time() + (timeout or self.timeout)
        while b"\n" not in self.buf:
            left = deadline - time.time()
            if left <= 0:
                self.stop()
                self.restarts += 1
                return {"hang": True}
            r, _, _ = select.select([self.p.stdout], [], [], left)
            if not r:
                continue
            chunk = os.read(self.p.stdout.fileno(), 1 << 20)
            if not chunk:
                rc = self.p.wait()
                self.stop()
                self.restarts += 1
                return {"crash": "exit %s" % rc}
            self.buf += chunk
        out, self.buf = self.buf.split(b"\n", 1)
        txt = out.decode("utf-8", "replace")
        if txt.startswith("WARNING conda."):
            return self.call_readonly(deadline)
        try:
            return json.loads(txt)
        except Exception:
            return {"crash": "bad reply: " + txt[:200]}

    def call_readonly(self, deadline):
        while b"\n" not in self.buf:
            r, _, _ = select.select([self.p.stdout], [], [], max(0.0, deadline - time.time()))
            if not r:
                self.stop()
                return {"hang": True}
            chunk = os.read(self.p.stdout.fileno(), 1 << 20)
            if not chunk:
                self.stop()
                return {"crash": "eof"}
            self.buf += chunk
        out, self.buf = self.buf.split(b"\n", 1)
        return json.loads(out.decode("utf-8", "replace"))


# ----------------------------------------------------------------------------- known findings
def load_known():
    known, fixed = [], []
    p = os.path.join(ROOT, "known_findings.txt")
    if os.path.exists(p):
        for line in open(p, encoding="utf-8"):
            line = line.strip()
            if not line or line.startswith("#"):
                continue
            kind, _, rest = line.partition(":")
            kv = dict(re.findall(r"(\w+)=(\S+)", rest))
            what = rest.split("what=", 1)[1] if "what=" in rest else rest
            kv["what"] = what
            if kind == "finding":
                known.append(kv)
            elif kind == "fixed":
                fixed.append(kv)
    return known, fixed


# ----------------------------------------------------------------------------- verdict / evidence
class Check:
    def __init__(self, prop, tier, seed):
        self.prop, self.tier, self.seed = prop, tier, seed
        self.t0 = time.time()
        self.known, _ = load_known()
        self.known_classes = {k["class"]: k for k in self.known if k.get("property") == prop}
        self.known_seen = {}
        self.violations = []          # (what, replay-dict)
        self.tie_breaks = []          # (item, detail)  -- translator shape / model-vs-impl disagreement
        self.proof = None
        self.cov = {"evaluations": 0, "distinct_nontrivial": 0, "samples": [], "rule": ""}
        self.extra = {}
        self.assumptions = []
        self.translators = {}

    # -- failures observed on the implementation by the spec-level oracle
    def oracle_failure(self, klass, what, replay):
        """klass: name of the Known_* predicate (extracted from Coq) that holds of this input, or None"""
        if klass and klass in self.known_classes:
            self.known_seen.setdefault(klass, []).append(what)
        else:
            self.violations.append((what, replay))

    def tie_break(self, item, detail, replay=None):
        self.tie_breaks.append((item, detail, replay))

    def count(self, n=1, nontrivial=0):
        self.cov["evaluations"] += n
        self.cov["distinct_nontrivial"] += nontrivial

    def sample(self, s, limit=6):
        if len(self.cov["samples"]) < limit:
            self.cov["samples"].append(s)

    def write_replay(self, name, obj):
        d = os.path.join(EVIDENCE, "replay")
        os.makedirs(d, exist_ok=True)
        path = os.path.join(d, "%s_%s.json" % (self.prop, name))
        obj = dict(obj)
        obj.setdefault("property", self.prop)
        obj.setdefault("seed", self.seed)
        with open(path, "w", encoding="utf-8") as f:
            json.dump(obj, f, indent=1, ensure_ascii=False, default=str)
        return path

    def finish(self, level="proof", extra_trusted=None):
        lines = []
        rc = 0
        for klass, whats in sorted(self.known_seen.items()):
            lines.append("KNOWN-FINDING: property=%s %s: %s (%d case(s), e.g. %s)" % (
                self.prop, klass, self.known_classes[klass]["what"], len(whats), whats[0][:160]))
        # listed findings are reported on every run on the unchanged tree, seen or not
        for klass, k in sorted(self.known_classes.items()):
            if klass not in self.known_seen:
                lines.append("KNOWN-FINDING: property=%s %s: %s (listed; not exercised by this run)" % (self.prop, klass, k["what"]))
        nviol = 0
        # replay files of earlier runs of this property are stale now: remove them before writing this run's
        rdir = os.path.join(EVIDENCE, "replay")
        if os.path.isdir(rdir):
            for fn in os.listdir(rdir):
                if fn == "%s_all_violations.txt" % self.prop or fn == "%s_unproved.json" % self.prop or \
                        re.fullmatch(r"%s_violation\d+\.json" % re.escape(self.prop), fn):
                    try:
                        os.remove(os.path.join(rdir, fn))
                    except OSError:
                        pass
        if self.violations:
            for i, (what, replay) in enumerate(self.violations[:5]):
                path = self.write_replay("violation%d" % i, {"what": what, "replay": replay})
                lines.append("VIOLATION property=%s replay=%s" % (self.prop, path))
            nviol = len(self.violations)
            with open(os.path.join(EVIDENCE, "replay", "%s_all_violations.txt" % self.prop), "w", encoding="utf-8") as f:
                for what, _ in self.violations:
                    f.write(what[:400].replace("\n", "\\n") + "\n")
            rc = 1
        else:
            broken = []
            if self.proof and (self.proof["discharged"] < self.proof["obligations"] or self.proof["rc"] != 0):
                broken.append({"kind": "proof", "failed_theorems": self.proof["failed"], "error": self.proof["error"],
                               "structure_errors": self.proof.get("structure_errors")})
            for item, detail, replay in self.tie_breaks[:10]:
                broken.append({"kind": "tie", "item": item, "detail": detail, "replay": replay})
            if broken:
                path = self.write_replay("unproved", {
                    "what": "the property is no longer shown to hold: a proof obligation or the model/code tie no longer checks; "
                            "the search over the model and the implementation found no concrete failing input",
                    "broken": broken})
                lines.append("VIOLATION property=%s replay=%s no-failing-input-found" % (self.prop, path))
                nviol = 1
                rc = 1
        cov = dict(self.cov)
        if self.proof:
            cov["obligations"] = self.proof["obligations"]
            if self.proof["discharged"] > 0:
                cov["discharged"] = self.proof["discharged"]
            else:  # schema: `discharged` must be >= 1 when present; a run with no theorem accepted says so explicitly
                cov["discharged_none"] = True
            cov["checker_cmd"] = self.proof["checker_cmd"]
            cov["theorems"] = self.proof["theorems"]
        tb = [
            "Coq 8.16.1 kernel via coqc (full .vo build); vm_compute used for finite sweeps; no native_compute",
            "Print Assumptions per theorem: see coverage.theorems[].assumptions",
            "extraction: ExtrOcamlBasic directives only (no Extract Constant of our own); ocamlfind ocamlopt 4.13.1; extract/driver.ml",
            "correspondence check (differential testing, bounded by generator quality): harness/mosprobe, checks/*.py",
        ]
        for name, info in self.translators.items():
            tb.append("translator %s -> %s" % (name, json.dumps(info, sort_keys=True)))
        if extra_trusted:
            tb += extra_trusted
        cov["trusted_base"] = tb
        cov["translators"] = self.translators
        cov["known_findings_seen"] = {k: len(v) for k, v in self.known_seen.items()}
        cov["tie_breaks"] = [{"item": i, "detail": str(d)[:500]} for i, d, _ in self.tie_breaks[:20]]
        cov.update(self.extra)
        ev = {"property_id": self.prop, "tier": self.tier, "seed": self.seed, "level": level, "coverage": cov,
              "assumptions": self.assumptions, "wall_s": round(time.time() - self.t0, 2), "violations": nviol}
        os.makedirs(EVIDENCE, exist_ok=True)
        with open(os.path.join(EVIDENCE, self.prop + ".json"), "w", encoding="utf-8") as f:
            json.dump(ev, f, indent=1, ensure_ascii=False, default=str)
        for l in lines:
            print(l)
        sys.stdout.flush()
        log("%s %s: evaluations=%d violations=%d known=%s proof=%s/%s wall=%.1fs" % (
            self.prop, self.tier, cov["evaluations"], nviol, list(self.known_seen),
            cov.get("discharged"), cov.get("obligations"), time.time() - self.t0))
        return rc


def translate_for(check, names):
    """run the named translators; a lost shape is a broken tie"""
    res = {}
    for n in names:
        fn = TRANSLATORS.get(n)
        if fn is None:
            continue
        try:
            res[n] = fn()
        except Exception as e:  # ShapeError or anything else: the fragment no longer has the expected shape
            res[n] = {"error": "%s: %s" % (type(e).__name__, e)}
            check.tie_break("translator:" + n, str(e))
    check.translators = res
    return res

"""C10 -- builds are reproducible.

For every project (corpus first, then seeded generated ones):
  * oracle: `mos build --no-color --error-style Short` in F fresh processes (fresh random hash seeds) plus one process per
    hook seed (MOS_VERIF_HASHPERM=<s>: the hooked hash collections are re-seated into a seeded order, so an order
    dependence shows deterministically): exit status, stdout and every output file must be identical in all runs;
  * correspondence with the extracted model (model/Repro.v under Gen/ReproSites.v): order of parsing / `$scope_N`
    numbering / order of parse and file-not-found diagnostics (parse), order of `unknown identifier` diagnostics
    (report_undefined), main.vs (to_vice_symbols on the symbol table dumped by mosprobe), the listing files
    (write_listings), the symbol named by an `import *` clash (import_all) -- each under several model oracles: the model's
    output set must contain what the binary printed / wrote.
"""
import hashlib
import json
import os
import random
import re
import shutil
import subprocess

import common
from common import Proc, log

ORD = lambda s: [ord(c) for c in s]
TXT = lambda l: "".join(chr(int(c)) for c in l)


# ----------------------------------------------------------------------------- projects
class FileText:
    """renders one source file and records, in the order in which the parser meets them, the events the model needs"""

    def __init__(self, name):
        self.name = name
        self.lines = []
        self.events = []
        self.off = 0
        self.nscopes = 0          # scopes handed out so far in this file (local ordinals)
        self.markers = {}         # marker label -> chain of local scope ordinals (outermost first)
        self.imports = []         # (target file name, local scope ordinal of the import scope)
        self.import_enclosing = {}   # import ordinal -> cells of the enclosing scopes

    def line(self, s):
        self.lines.append(s)
        self.off += len(s) + 1

    def text(self):
        return "".join(l + "\n" for l in self.lines)


def render_items(ft, items, indent, chain_slots):
    """chain_slots: list of mutable cells [ordinal] for the enclosing brace scopes (filled in post-order)"""
    pad = "  " * indent
    for it in items:
        k = it[0]
        if k == "nop":
            ft.line(pad + "nop")
        elif k == "label":
            ft.line(pad + "%s: nop" % it[1])
        elif k == "marker":
            ft.line(pad + "%s: nop" % it[1])
            ft.markers[it[1]] = list(chain_slots)
        elif k == "use":
            ft.line(pad + "%s %s" % (it[2] if len(it) > 2 else "lda", it[1]))
        elif k == "use2":                       # two identifiers in one expression
            ft.line(pad + "lda %s + %s" % (it[1], it[2]))
        elif k == "data":
            ft.line(pad + ".byte %s" % ", ".join(str(x) for x in it[1]))
        elif k == "error":
            ft.events.append(["error", ft.off + len(pad), ft.off + len(pad) + 3])
            ft.line(pad + "???")
        elif k == "scope":
            ft.line(pad + "{")
            cell = [None]
            render_items(ft, it[1], indent + 1, chain_slots + [cell])
            ft.line(pad + "}")
            ft.events.append(["scope"])
            cell[0] = ft.nscopes
            ft.nscopes += 1
        elif k == "import":
            # `.import <args> from "<target>"` optionally followed by a block (which the parser attaches to the import even when
            # it starts on a later line): the block is parsed first, then the import scope is handed out
            target, args = it[1], it[2]
            block = it[3] if len(it) > 3 else None
            head = pad + ".import %s from " % args
            lo = ft.off + len(head)
            ev = ["import", [ORD(c) for c in target.split("/")], lo, lo + len(target) + 2]
            cell = [None]
            if block is None:
                ft.line(head + '"%s"' % target)
                ft.line(pad + "nop")            # keeps a following `{` from becoming the import's block
            else:
                ft.line(head + '"%s" {' % target)
                render_items(ft, block, indent + 1, chain_slots + [cell])
                ft.line(pad + "}")
            ft.events.append(ev)
            cell[0] = ft.nscopes
            ft.imports.append((target, ft.nscopes))
            ft.import_enclosing[ft.nscopes] = list(chain_slots)
            ft.nscopes += 1
        else:
            raise ValueError(k)


def build_project(desc):
    """desc: {"files": {name: items}, "listing": bool, "vice": bool, "missing": [names that are imported but do not exist]}"""
    fts = {}
    for name, items in desc["files"].items():
        ft = FileText(name)
        render_items(ft, items, 0, [])
        fts[name] = ft
    toml = '[build]\nentry = "main.asm"\n'
    if desc.get("listing"):
        toml += "listing = true\n"
    if desc.get("vice"):
        toml += 'symbols = ["vice"]\n'
    return fts, toml


def gen_project(rng, idx):
    kind = rng.choice(["valid", "valid", "valid", "undefined", "undefined", "parse_error", "missing", "clash", "alias_clash", "stem_clash"])
    nfiles = rng.choice([1, 2, 3, 4, 4, 5, 6])
    names = ["main.asm"] + ["f%d.asm" % i for i in range(1, nfiles)]
    if kind == "stem_clash":
        names = ["main.asm", "sub/main.asm", "sub/f2.asm"][: max(2, min(3, nfiles))]
    files = {n: [] for n in names}
    # import tree: every non-main file is imported by exactly one earlier file, several imports per file likely
    parent = {}
    for i, n in enumerate(names[1:], 1):
        parent[n] = names[rng.randrange(0, i)] if rng.random() < 0.5 else names[0]
    uid = [0]

    def fresh(prefix):
        uid[0] += 1
        return "%s%d" % (prefix, uid[0])

    def body(n, depth=0):
        items = []
        for _ in range(rng.randrange(1, 4)):
            r = rng.random()
            if r < 0.35 and depth < 3:
                inner = [("marker", fresh("m_"))] + body(n, depth + 1)
                items.append(("scope", inner))
            elif r < 0.6:
                items.append(("nop",))
            elif r < 0.8:
                items.append(("data", [rng.randrange(256) for _ in range(rng.randrange(1, 12))]))
            else:
                items.append(("label", fresh("l_")))
        return items

    undefined_names = ["u_foo", "u_bar", "u_baz"]
    for n in names:
        items = body(n)
        kids = [c for c in names if parent.get(c) == n]
        for c in kids:
            rel = c
            if "/" in n:     # import paths are relative to the importing file
                rel = c.split("/", 1)[1] if c.startswith("sub/") else "../" + c
            top = "t_" + re.sub(r"\W", "_", c)
            args = "*" if rng.random() < 0.6 else top
            imp = ("import", rel, args)
            pos = rng.randrange(0, len(items) + 1)
            r2 = rng.random()
            if r2 < 0.2 and args != "*":
                items.insert(pos, ("import", rel, args, [("marker", fresh("m_"))] + (body(n, 2) if rng.random() < 0.5 else [])))
            elif r2 < 0.45:
                items.insert(pos, ("scope", [("marker", fresh("m_")), imp]))
            else:
                items.insert(pos, imp)
        items.append(("label", "t_" + re.sub(r"\W", "_", n)))
        if kind == "undefined":
            for _ in range(rng.randrange(2, 6)):
                u = rng.choice(undefined_names[: rng.choice([1, 2, 3])])
                pos = rng.randrange(0, len(items) + 1)
                if rng.random() < 0.2:
                    items.insert(pos, ("use2", u, rng.choice(undefined_names)))
                else:
                    items.insert(pos, ("use", u, rng.choice(["lda", "sta", "jmp", "ldx"])))
        if kind == "parse_error" and rng.random() < 0.7:
            for _ in range(rng.randrange(1, 3)):
                items.insert(rng.randrange(0, len(items) + 1), ("error",))
        files[n] = items
    missing = []
    if kind == "missing":
        for n in names:
            if rng.random() < 0.6 or n == "main.asm":
                for _ in range(rng.randrange(2, 4)):
                    m = fresh("gone_") + ".asm"
                    missing.append(m)
                    files[n].insert(rng.randrange(0, len(files[n]) + 1), ("import", m, "*"))
    if kind in ("clash", "alias_clash"):
        # main defines names that an `import *` brings in again
        k = rng.randrange(2, 5)
        labs = [fresh("c_") for _ in range(k)]
        rng.shuffle(labs)
        if kind == "clash":
            files["lib.asm"] = [("label", l) for l in labs]
            clash = [l for l in labs if rng.random() < 0.7] or labs[:1]
        else:
            files["g.asm"] = [("label", labs[0])]
            files["lib.asm"] = [("import", "g.asm", "%s, %s as %s, %s as %s" % (labs[0], labs[0], labs[1], labs[0], fresh("zz_")))]
            clash = labs[:2]
        rng.shuffle(clash)
        files["main.asm"] = [("label", l) for l in clash] + files["main.asm"] + [("import", "lib.asm", "*")]
    return {"files": files, "listing": rng.random() < 0.5 or kind == "stem_clash", "vice": rng.random() < 0.7 or kind == "valid",
            "kind": kind, "idx": idx}


# ----------------------------------------------------------------------------- running the implementation
def materialise(d, texts, toml):
    for sub in os.listdir(d):
        p = os.path.join(d, sub)
        shutil.rmtree(p) if os.path.isdir(p) else os.remove(p)
    for n, t in texts.items():
        p = os.path.join(d, n)
        os.makedirs(os.path.dirname(p), exist_ok=True)
        with open(p, "w", encoding="utf-8") as f:
            f.write(t)
    with open(os.path.join(d, "mos.toml"), "w") as f:
        f.write(toml)


def one_build(mos, d, hashperm=None):
    shutil.rmtree(os.path.join(d, "target"), ignore_errors=True)
    env = dict(common.ENV)
    env.pop("MOS_VERIF_HASHPERM", None)
    if hashperm is not None:
        env["MOS_VERIF_HASHPERM"] = str(hashperm)
    p = subprocess.run([mos, "--no-color", "--error-style", "Short", "build"], cwd=d, stdout=subprocess.PIPE, stderr=subprocess.STDOUT,
                       env=env, timeout=120)
    files = {}
    t = os.path.join(d, "target")
    if os.path.isdir(t):
        for root, _, fs in os.walk(t):
            for n in sorted(fs):
                with open(os.path.join(root, n), "rb") as f:
                    files[os.path.relpath(os.path.join(root, n), t)] = f.read()
    return {"exit": p.returncode, "stdout": common.clean(p.stdout.decode("utf-8", "replace")), "files": files}


def digest(r):
    h = hashlib.sha256()
    h.update(("%d\0%s\0" % (r["exit"], r["stdout"])).encode())
    for n in sorted(r["files"]):
        h.update(n.encode() + b"\0" + hashlib.sha256(r["files"][n]).digest())
    return h.hexdigest()[:16]


def show(r):
    return {"exit": r["exit"], "stdout": r["stdout"][:2000],
            "files": {n: (c.decode("utf-8", "replace")[:1500] if n.endswith((".vs", ".lst")) else hashlib.sha256(c).hexdigest()[:16])
                      for n, c in r["files"].items()}}


def reproducible(chk, mos, d, texts, toml, fresh, seeds, label):
    """the spec-level oracle: all runs agree.  Returns the first run's result."""
    materialise(d, texts, toml)
    runs = [("fresh%d" % i, one_build(mos, d)) for i in range(fresh)] + [("hashperm=%d" % s, one_build(mos, d, s)) for s in seeds]
    base_name, base = runs[0]
    for name, r in runs[1:]:
        if digest(r) != digest(base):
            diff = [k for k in ("exit", "stdout") if r[k] != base[k]] + \
                   ["file " + n for n in sorted(set(r["files"]) | set(base["files"])) if r["files"].get(n) != base["files"].get(n)]
            chk.oracle_failure(None, "%s: two builds of the same project differ (%s vs %s) in: %s" % (label, base_name, name, ", ".join(diff)),
                               {"project": {"files": texts, "toml": toml}, "run_a": {base_name: show(base)}, "run_b": {name: show(r)},
                                "how": "MOS_VERIF_HASHPERM=<seed> mos --no-color --error-style Short build   (fresh = variable unset)"})
            break
    return base, len(runs)


# ----------------------------------------------------------------------------- correspondence helpers
def offset_to_linecol(text, off):
    before = text[:off]
    line = before.count("\n")
    col = off - (before.rfind("\n") + 1)
    return line + 1, col + 1


def parse_stdout(out):
    diags = []
    for l in out.splitlines():
        m = re.match(r"^(.*?):(\d+):(\d+): error: (.*)$", l)
        if m:
            diags.append((m.group(1), int(m.group(2)), int(m.group(3)), m.group(4)))
        elif l.strip():
            diags.append((None, 0, 0, l))
    return diags


def model_parse(model, fts, oracle, kind="sites"):
    req = {"cmd": "parse", "kind": kind, "oracle": oracle, "main": [ORD("main.asm")],
           "files": [{"path": [ORD(c) for c in n.split("/")], "len": len(ft.text().encode()), "events": ft.events} for n, ft in fts.items()]}
    return model.call(req)


def norm_rel(importer, rel):
    base = importer.split("/")[:-1]
    for part in rel.split("/"):
        if part == "..":
            base = base[:-1]
        else:
            base.append(part)
    return "/".join(base)


def events_resolved(fts):
    """import targets in the events are relative to the importing file: resolve them (parse_dot) for the model"""
    for n, ft in fts.items():
        for e in ft.events:
            if e[0] == "import":
                rel = "/".join(TXT(c) for c in e[1])
                e[1] = [ORD(c) for c in norm_rel(n, rel).split("/")]
        ft.imports = [(norm_rel(n, t), k) for t, k in ft.imports]


def predicted_chains(fts, mp):
    """marker label -> set of `$scope_N` chains predicted by the model's parse result"""
    scopes = {"/".join(TXT(c) for c in f["path"]): f["scopes"] for f in mp["files"]}
    importers = {}
    for n, ft in fts.items():
        for target, k in ft.imports:
            importers.setdefault(target, []).append((n, k))
    brace_of_import = {}
    memo = {}

    def file_chains(n):
        if n == "main.asm":
            return [[]]
        if n in memo:
            return memo[n]
        out = []
        for imp, k in importers.get(n, []):
            if imp not in scopes:
                continue
            enclosing = fts[imp].import_enclosing.get(k, [])
            for c in file_chains(imp):
                out.append(c + [scopes[imp][x[0]] for x in enclosing] + [scopes[imp][k]])
        memo[n] = out
        return out

    res = {}
    for n, ft in fts.items():
        if n not in scopes:
            continue
        for m, cells in ft.markers.items():
            res[m] = sorted(c + [scopes[n][x[0]] for x in cells] for c in file_chains(n))
    return res


def tree_from_symbols(symbols):
    root = {"nx": 0, "data": None, "children": {}}
    counter = [0]
    for path, ty, val in symbols:
        node = root
        for comp in path.split("."):
            if comp not in node["children"]:
                counter[0] += 1
                node["children"][comp] = {"nx": counter[0], "data": None, "children": {}}
            node = node["children"][comp]
        node["data"] = ["label" if ty == "label" else "other", val]

    def conv(n):
        return {"nx": n["nx"], "data": n["data"], "children": [[ORD(k), conv(v)] for k, v in n["children"].items()]}
    return conv(root)


# ----------------------------------------------------------------------------- the check
def check_project(chk, desc, mos, model, probe, d, fresh, seeds, dist, label):
    fts, toml = build_project(desc)
    events_resolved(fts)
    texts = {n: ft.text() for n, ft in fts.items()}
    base, nruns = reproducible(chk, mos, d, texts, toml, fresh, seeds, label)
    nontrivial = 0
    diags = parse_stdout(base["stdout"])
    # ---- parse(): the model's prediction under three oracles must be one and the same and match the binary
    mps = [model_parse(model, fts, o) for o in (0, 1, 5)]
    if any("files" not in mp for mp in mps):
        chk.tie_break("model", "mosmodel_c10 failed on a parse request: %s" % mps, {"project": texts})
        return nruns, 0
    mp = mps[0]
    if any(m != mp for m in mps[1:]):
        # the model itself says the outcome depends on the oracle (a site is hash-ordered): correspondence = membership
        dist["model_order_dependent"] = dist.get("model_order_dependent", 0) + 1
        mps = [model_parse(model, fts, o) for o in range(0, 40)]
    n_imports_max = max([len([e for e in ft.events if e[0] == "import"]) for ft in fts.values()] + [0])
    if n_imports_max >= 2:
        nontrivial = 1
        dist["several_imports_in_a_file"] += 1
    bases = {"/".join(TXT(c) for c in f["path"]): int(f["base"]) for f in mp["files"]}

    def model_errors(mpx):
        out = []
        bs = sorted(((int(f["base"]), "/".join(TXT(c) for c in f["path"])) for f in mpx["files"]))
        for e in mpx["errors"]:
            lo = int(e["span"][0])
            fname = [n for b, n in bs if b <= lo][-1]
            off = lo - dict((n, b) for b, n in bs)[fname]
            line, col = offset_to_linecol(texts[fname], off)
            out.append((fname, line, col, "file not found" if e["kind"] == "file_not_found" else "unexpected"))
        return out
    if base["exit"] != 0 and any(m.startswith(("unexpected", "file not found")) for _, _, _, m in diags):
        got = [(f, l, c, "file not found" if m.startswith("file not found") else "unexpected") for f, l, c, m in diags]
        preds = [model_errors(m) for m in mps]
        dist["parse_diag_projects"] += 1
        if len(got) >= 2:
            nontrivial = 1
        if got not in preds:
            chk.tie_break("correspondence:parse-diagnostics", "order / position of parse and file-not-found diagnostics differs from the model",
                          {"project": texts, "impl": got, "model": preds[0]})
    elif not mp["errors"] is None and mp["errors"] and base["exit"] == 0:
        chk.tie_break("correspondence:parse-diagnostics", "the model predicts parse errors but the build succeeded", {"project": texts, "model": mp["errors"]})
    # ---- $scope_N numbering seen in main.vs
    if base["exit"] == 0 and "main.vs" in base["files"]:
        vs = base["files"]["main.vs"].decode()
        seen = {}
        for l in vs.splitlines():
            m = re.match(r"^al C:[0-9A-F]+ \.(.*)$", l)
            comps = m.group(1).split(".")
            if comps[-1].startswith("m_"):
                seen.setdefault(comps[-1], []).append([int(c[len("$scope_"):]) for c in comps[:-1]])
        seen = {k: sorted(v) for k, v in seen.items()}
        preds = [predicted_chains(fts, m) for m in mps]
        dist["scope_chain_projects"] += 1
        dist["markers"] += len(seen)
        if seen not in preds:
            bad = {k: (seen.get(k), preds[0].get(k)) for k in set(seen) | set(preds[0]) if seen.get(k) != preds[0].get(k)}
            chk.tie_break("correspondence:scope-numbering", "`$scope_N` numbering in main.vs differs from the model's parse order",
                          {"project": texts, "differs (impl, model)": bad, "model_parse_order": [TXT(f["path"][-1]) for f in mp["files"]]})
        # ---- to_vice_symbols on the real symbol table
        r = probe.call({"cmd": "asm", "files": texts, "pc": 0x2000})
        if r.get("ok") and "symbols" in r:
            root = tree_from_symbols(r["symbols"])
            outs = set()
            for o in (0, 1, 7):
                mv = model.call({"cmd": "vice", "oracle": o, "root": root})
                outs.add(TXT(mv.get("vice", [])) if "vice" in mv else "<model failed: %s>" % mv)
            dist["vice_files"] += 1
            if vs not in outs:
                chk.tie_break("correspondence:to_vice_symbols", "main.vs differs from the model's rendering of the real symbol table",
                              {"project": texts, "impl": vs, "model": sorted(outs)[0]})
            elif len(outs) > 1:
                dist["model_order_dependent"] = dist.get("model_order_dependent", 0) + 1
        else:
            chk.tie_break("correspondence:probe", "mosprobe does not assemble a project that `mos build` accepts", {"project": texts, "probe": str(r)[:500]})
    # ---- listing files
    if base["exit"] == 0 and desc.get("listing"):
        r = probe.call({"cmd": "asm", "files": texts, "pc": 0x2000, "move_macro": True, "listing": 8})
        if "listing" in r:
            entries = [[[ORD(c) for c in p.split("/")], ORD(c)] for p, c in sorted(r["listing"].items())]
            want = {n: c.decode("utf-8", "replace") for n, c in base["files"].items() if n.endswith(".lst")}
            outs = []
            for o in (0, 1, 9):
                ml = model.call({"cmd": "listing", "oracle": o, "entries": entries})
                outs.append({TXT(n): TXT(c) for n, c in ml.get("fs", [])})
            dist["listing_projects"] += 1
            stems = [p.split("/")[-1].rsplit(".", 1)[0] for p in r["listing"]]
            if len(set(stems)) < len(stems):
                dist["listing_stem_clashes"] += 1
                nontrivial = 1
            if want not in outs:
                chk.tie_break("correspondence:write_listings", "the .lst files differ from the model's file system",
                              {"project": texts, "impl": want, "model": outs[0]})
    # ---- undefined symbols
    unk = [(f, l, c, m[len("unknown identifier: "):]) for f, l, c, m in diags if m.startswith("unknown identifier: ")]
    if unk and len(unk) == len(diags):
        und = []
        for f, l, c, name in sorted(set(unk)):
            text = texts[f]
            off = sum(len(x) + 1 for x in text.split("\n")[: l - 1]) + (c - 1)
            lo = bases[f] + off
            und.append({"scope": 0, "id": ORD(name), "span": [lo, lo + len(name)]})
        dup = len(unk) - len(set(unk))      # equal (name, span) reported from different scopes
        outs = []
        for o in (0, 1, 11):
            mu = model.call({"cmd": "undefined", "oracle": o, "und": und})
            o_list = []
            for dg in mu.get("diags", []):
                lo = int(dg["span"][0])
                fname = [n for n, b in sorted(bases.items(), key=lambda x: x[1]) if b <= lo][-1]
                line, col = offset_to_linecol(texts[fname], lo - bases[fname])
                o_list.append((fname, line, col, TXT(dg["id"])))
            outs.append(o_list)
        dist["undefined_projects"] += 1
        names = [u[3] for u in unk]
        if len(set(names)) < len(names):
            dist["repeated_undefined_name"] += 1
            nontrivial = 1
        got = unk if not dup else sorted(set(unk), key=unk.index)
        if got not in outs:
            chk.tie_break("correspondence:report_undefined", "order of `unknown identifier` diagnostics differs from the model",
                          {"project": texts, "impl": got, "model": outs[0]})
    # ---- import * clash
    clash = [m for _, _, _, m in diags if m.startswith("cannot import an already defined symbol: ")]
    if clash and desc.get("kind") in ("clash", "alias_clash"):
        lib = desc["files"]["lib.asm"]
        main_defs = [it[1] for it in desc["files"]["main.asm"] if it[0] == "label"]
        if desc["kind"] == "clash":
            children = [[ORD(it[1]), i + 1] for i, it in enumerate(lib)]
        else:
            m = re.match(r"(\w+), \w+ as (\w+), \w+ as (\w+)", lib[0][2])
            children = [[ORD(m.group(1)), 7], [ORD(m.group(2)), 7], [ORD(m.group(3)), 7]]
        outs = set()
        for o in (0, 1, 13):
            mi = model.call({"cmd": "import_all", "oracle": o, "children": children, "existing": [ORD(x) for x in main_defs]})
            outs.add(TXT(mi["clash"]["id"]) if "clash" in mi else "<no clash>")
        dist["import_clash_projects"] += 1
        nontrivial = 1
        got = clash[0][len("cannot import an already defined symbol: "):]
        if got not in outs:
            chk.tie_break("correspondence:import_all", "the symbol named by the `import *` clash differs from the model",
                          {"project": texts, "impl": got, "model": sorted(outs)})
    dist["exit_ok" if base["exit"] == 0 else "exit_err"] += 1
    dist["kind_" + desc.get("kind", "corpus")] = dist.get("kind_" + desc.get("kind", "corpus"), 0) + 1
    chk.sample({"project": texts, "toml": toml, "exit": base["exit"], "stdout": base["stdout"][:400],
                "files": sorted(base["files"])}, limit=4)
    return nruns, nontrivial


def corpus_projects():
    out = []
    cdir = os.path.join(common.ROOT, "corpus", "C10")
    if os.path.isdir(cdir):
        for name in sorted(os.listdir(cdir)):
            p = os.path.join(cdir, name)
            if os.path.isdir(p):
                texts = {}
                for root, _, fs in os.walk(p):
                    for f in fs:
                        rel = os.path.relpath(os.path.join(root, f), p)
                        texts[rel] = open(os.path.join(root, f), encoding="utf-8").read()
                toml = texts.pop("mos.toml")
                out.append((name, texts, toml))
    return out


def run(chk):
    rng = random.Random(chk.seed)
    thorough = chk.tier == "thorough"
    common.translate_for(chk, ["repro"])
    chk.proof = common.prove("C10")
    if thorough and chk.proof["rc"] == 0:
        # independent re-check of the compiled proofs
        with common.Lock("coq"):
            rc, out = common.run(["coqchk", "-o", "-silent", "-Q", "theories", "Mos", "Mos.props.C10"], cwd=common.COQ, timeout=1500)
        chk.extra["coqchk"] = {"rc": rc, "tail": out[-300:]}
        if rc != 0:
            chk.tie_break("coqchk", "coqchk rejects props/C10.vo: %s" % out[-800:])
    probe = Proc([common.build_probe()])
    try:
        model = Proc([common.build_model("c10")])
    except common.BuildError as e:
        model = None
        chk.tie_break("model-build", str(e)[-1500:])
    mos = common.build_mos()
    broken = bool(chk.tie_breaks) or chk.proof["discharged"] < chk.proof["obligations"]
    # a broken proof / translator shape widens the search: more projects, more runs per project
    nproj = (160 if thorough else 40) * (3 if broken else 1)
    fresh = (10 if thorough else 4) * (3 if broken else 1)
    seeds = list(range(1, (11 if thorough else 5)))
    d = os.path.join(common.CACHE, "work", "c10_%d" % os.getpid())
    os.makedirs(d, exist_ok=True)
    dist = {k: 0 for k in ("several_imports_in_a_file", "parse_diag_projects", "scope_chain_projects", "markers", "vice_files", "listing_projects",
                           "listing_stem_clashes", "undefined_projects", "repeated_undefined_name", "import_clash_projects", "exit_ok", "exit_err",
                           "corpus_projects", "builds")}
    if model is not None:
        st = model.call({"cmd": "sites"})
        chk.extra["sites"] = st
    try:
        # corpus (witnesses of the repaired defects): many more runs, no model correspondence needed
        for name, texts, toml in corpus_projects():
            base, n = reproducible(chk, mos, d, texts, toml, fresh * 3, seeds + [s + 100 for s in seeds], "corpus/C10/" + name)
            dist["corpus_projects"] += 1
            dist["builds"] += n
            chk.count(n, 1)
        seen = set()
        for i in range(nproj):
            desc = gen_project(rng, i)
            key = json.dumps(desc["files"], sort_keys=True) + str(desc["listing"]) + str(desc["vice"])
            if key in seen:
                continue
            seen.add(key)
            if model is None:
                fts, toml = build_project(desc)
                events_resolved(fts)
                _, n = reproducible(chk, mos, d, {n_: ft.text() for n_, ft in fts.items()}, toml, fresh, seeds, "generated #%d" % i)
                nt = 0
            else:
                n, nt = check_project(chk, desc, mos, model, probe, d, fresh, seeds, dist, "generated #%d (%s)" % (i, desc["kind"]))
            dist["builds"] += n
            chk.count(n, nt)
    finally:
        shutil.rmtree(d, ignore_errors=True)
        probe.stop()
        if model:
            model.stop()
    chk.cov["rule"] = ("projects = corpus/C10 witnesses + seeded generated projects (1-6 files in an import tree with several imports per file, "
                       "imports inside brace scopes, `*` and specific imports, nested brace scopes with marker labels, data, labels; kinds: valid / "
                       "repeated undefined names (also two in one expression) / parse errors in several files / several missing imports per file / "
                       "`import *` name clashes incl. aliases of one symbol / two sources with the same stem; listing and symbols=[vice] on or off); "
                       "every project is built in F fresh processes + one per hook seed and all runs must agree byte for byte; evaluations = builds; "
                       "a project counts as non-trivial when it has >= 2 imports in one file, a repeated undefined name, >= 2 parse/file-not-found "
                       "diagnostics, a listing stem clash or an import clash (the situations in which a hash order can show)")
    chk.extra["distribution"] = dist
    chk.extra["runs_per_project"] = {"fresh": fresh, "hook_seeds": seeds}
    chk.assumptions = [
        "partial: which hash seeds a process draws is runtime behaviour; the model quantifies over all iteration orders (permutation oracle per call), "
        "the check samples fresh processes and forces orders through the MOS_VERIF_HASHPERM hook at the modelled sites",
        "the code generator between parse tree and output stage is an arbitrary deterministic function in C10_binary_invariant; its only hash iterations "
        "(children() in `import *`, all() for the symbol file, the undefined set) are modelled sites",
        "a stable sort is modelled by insertion sort (any two stable sorts agree extensionally)",
    ]
    return chk.finish(extra_trusted=[
        "translate/t_repro.py (collection types and sort keys at the modelled sites; census of hash collections on the build path)",
        "hook fe4f38c (MOS_VERIF_HASHPERM) -- only used to make order dependence observable, never to decide a verdict alone",
        "extract/driver_c10.ml (JSON conversion, seeded shuffle oracles), harness/mosprobe (symbol table and listing map of the same project)"])


def replay(chk, path):
    obj = json.load(open(path))
    rp = obj["replay"]
    proj = rp["project"]
    texts, toml = (proj["files"], proj["toml"]) if "files" in proj else (proj, '[build]\nentry = "main.asm"\nlisting = true\nsymbols = ["vice"]\n')
    mos = common.build_mos()
    d = os.path.join(common.CACHE, "work", "c10_replay_%d" % os.getpid())
    os.makedirs(d, exist_ok=True)
    try:
        materialise(d, texts, toml)
        outs = {}
        for name, hp in [("fresh%d" % i, None) for i in range(12)] + [("hashperm=%d" % s, s) for s in range(1, 9)]:
            r = one_build(mos, d, hp)
            outs.setdefault(digest(r), []).append((name, r))
        print(json.dumps({"distinct_outcomes": len(outs),
                          "outcomes": [{"runs": [n for n, _ in v], **show(v[0][1])} for v in outs.values()]}, indent=1))
        return 0 if len(outs) == 1 else 1
    finally:
        shutil.rmtree(d, ignore_errors=True)

"""C15 -- rename is behaviour-preserving and complete."""
import json
import os
import random
import sys

import common
from common import Proc, log

sys.path.insert(0, os.path.join(common.ROOT, "gen"))
sys.path.insert(0, os.path.join(common.ROOT, "drivers"))
import navgen  # noqa: E402
import lsp_nav  # noqa: E402
import c16  # noqa: E402
import c16model  # noqa: E402

CORPUS = os.path.join(common.ROOT, "corpus", "C15")


def known_class(p, T):
    """no known finding is left for C15 (Known_import_alias: 92ace6d, Known_greedy_untaken_definition: 41281c3)"""
    return None


class ProbeUnavailable(Exception):
    """the probe did not answer (loaded machine / killed): never a verdict"""


def build(probe, files):
    r = probe.call({"cmd": "asm", "files": files}, timeout=300.0)
    if "hang" in r or "crash" in r:
        raise ProbeUnavailable(str(r))
    if "segments" not in r:
        return None, r.get("errors") or r.get("parse_errors") or r
    errs = (r.get("parse_errors") or []) + (r.get("errors") or [])
    return [(s["name"], s["start"], s["data"]) for s in r["segments"]], [e.get("msg") for e in errs]


def other_scope_names(p, T):
    """names 'in another scope' that cannot interfere by construction: every definition of the name sits directly in an
    anonymous block (unreachable by dotted paths) that is neither around nor inside the block of T"""
    out = []
    tanc = set(map(id, T.scope.ancestors()))
    for name in sorted({d.name for d in p.defs}):
        if name == T.name:
            continue
        ds = [d for d in p.defs if d.name == name]
        ok = True
        for d in ds:
            if d.kind in ("param", "macro") or d.scope.kind != "anon" or not d.assembled:
                ok = False
                break
            if id(d.scope) in tanc or any(a is T.scope for a in d.scope.ancestors()):
                ok = False
                break
            if d.block is not None:
                ok = False
                break
            # no occurrence of T inside that block either (an imported T is used far from where it is defined)
            if any(o.truth is T and o.stmt is not None and any(a is d.scope for a in o.stmt.scope.ancestors()) for o in p.occs):
                ok = False
                break
        if ok and not any(v == name for (v, _) in p.aliases):
            out.append(name)
    return out


def shift(col, line, file, edits, new_len_of):
    """column of an occurrence after the edits were applied"""
    d = 0
    for (f, l0, c0, l1, c1, text) in edits:
        if f == file and l0 == line and c0 < col:
            d += len(text) - (c1 - c0)
    return col + d


def rename_trial(chk, p, sess, probe, o, T, new_name, base_build, stats, kind, tie=None):
    files = p.files()
    klass = known_class(p, T)
    mid = o.col + (len(o.text) // 2 if len(o.text) > 1 else 0)
    rep = {"files": files, "occurrence": [o.file, o.line, o.col, o.text, o.role], "new_name": new_name}

    def fail(what, **kw):
        k = klass
        if k == "Known_import_alias" and tie is not None:
            # the class is decided by the predicate of the guarded theorem (extracted from Coq), evaluated on the real
            # table and Analysis; the generator-level predicate must agree, else the failure is reported unclassified
            known, _ = tie.classify(o, mid)
            tie.n["classified_by_extracted_predicate"] += 1
            if known is not True:
                k = None
        chk.oracle_failure(k, "rename `%s` -> `%s` at %s:%d:%d (%s, %s): %s" % (o.text, new_name, o.file, o.line, o.col, o.role, kind, what),
                           dict(rep, **kw))
        return False
    edits = sess.rename(o.file, o.line, mid, new_name)
    # the request relabels the server's live symbol table: re-analyse before anything else is asked
    sess.s.did_change("main.asm", files["main.asm"])
    sess.s.barrier()
    stats["renames"] += 1
    if edits is None:
        stats["offered_but_null"] += 1
        return True
    if tie is not None:
        tie.check_rename(p, o, mid, new_name, edits)
    # --- only occurrences that mean the symbol are edited, and all of them (every file)
    want, maybe = c16.expected_references(p, T)
    # ... under the name that is being renamed: `super` does not name the symbol, and an import alias is a name of its own
    want = {k for k in want if any(x.key() == k and x.text == o.text for x in p.occs)}
    maybe = {k for k in maybe if any(x.key() == k and x.text == o.text for x in p.occs)}
    got = set()
    stray = []
    for e in edits:
        inside = c16.occurrences_in(p, e[:5])
        exact = [x for x in inside if (x.file, x.line, x.col, x.line, x.col + len(x.text)) == e[:5]]
        if not exact:
            stray.append(e)
        for x in exact:
            got.add(x.key())
    if stray:
        return fail("the edit touches text that is not an occurrence of the symbol: %s" % stray, edits=edits)
    if got - want - maybe or want - got:
        return fail("edited occurrences != occurrences bound to the symbol: missing %s extra %s" % (sorted(want - got), sorted(got - want - maybe)), edits=edits)
    bad_text = [e for e in edits if e[5] != new_name]
    if bad_text:
        return fail("an occurrence is replaced by %r instead of the new name" % (bad_text[0][5],), edits=edits)
    new_files, problem = lsp_nav.apply_edits(files, edits)
    if problem:
        return fail("the workspace edit cannot be applied: %s" % problem, edits=edits)
    # --- the edited project assembles without diagnostics to the same bytes
    b2, errs = build(probe, new_files)
    if b2 is None or errs:
        return fail("the edited project no longer assembles: %s" % (errs,), edits=edits, new_files=new_files)
    if b2 != base_build:
        return fail("the edited project assembles to different bytes", edits=edits, new_files=new_files)
    stats["behaviour_preserved"] += 1
    # --- renaming back restores the text
    for f in new_files:
        sess.s.did_change(f, new_files[f])
    sess.s.barrier()
    col2 = shift(o.col, o.line, o.file, edits, None)
    mid2 = col2 + (len(new_name) // 2 if len(new_name) > 1 else 0)
    back = sess.rename(o.file, o.line, mid2, o.text if o.role not in ("superseg",) else T.name)
    for f in files:
        sess.s.did_change(f, files[f])
    sess.s.barrier()
    if back is None:
        return fail("renaming back is not offered on the edited project", edits=edits, new_files=new_files)
    restored, problem = lsp_nav.apply_edits(new_files, back)
    if problem or restored != files:
        return fail("renaming back does not restore the original text%s" % (": " + problem if problem else ""), edits=edits, back=back,
                    restored=restored)
    stats["roundtrips"] += 1
    return True


def run(chk):
    rng = random.Random(chk.seed)
    chk.proof = common.prove("C15")
    probe = Proc([common.build_probe()])
    mos = common.build_mos()
    thorough = chk.tier == "thorough"
    n = 120 if thorough else 36
    per_program = 30 if thorough else 12
    workdir = os.path.join(common.CACHE, "work")
    os.makedirs(workdir, exist_ok=True)
    stats = {"programs": 0, "discarded": 0, "occurrences_asked": 0, "offered": 0, "not_offered": 0, "renames": 0, "offered_but_null": 0,
             "behaviour_preserved": 0, "roundtrips": 0, "fresh": 0, "other_scope": 0, "multi_file": 0, "by_role": {}}
    feats = {}
    tie = c16model.RenameTie(chk)
    # ---- corpus first
    if os.path.isdir(CORPUS):
        for fn in sorted(os.listdir(CORPUS)):
            if fn.endswith(".json"):
                case = json.load(open(os.path.join(CORPUS, fn)))
                for attempt in (0, 1, 2):
                    try:
                        run_corpus_case(chk, fn, case, mos, probe, workdir, stats)
                        break
                    except (lsp_nav.ServerSlow, ProbeUnavailable):
                        stats["slow_skipped"] = stats.get("slow_skipped", 0) + 1
                    except lsp_nav.ServerDied as e:
                        chk.oracle_failure(None, "server died on corpus %s: %s" % (fn, e), {"corpus": fn})
                        break
    seen = set()
    i = 0
    while stats["programs"] < n and i < 4 * n:
        i += 1
        sub = random.Random(rng.getrandbits(64))
        p = navgen.Gen(sub).generate()
        files = p.files()
        key = json.dumps(files, sort_keys=True)
        if key in seen:
            continue
        seen.add(key)
        if c16.build_truth(probe, p):
            stats["discarded"] += 1
            continue
        base_build, errs = build(probe, files)
        if base_build is None or errs:
            stats["discarded"] += 1
            continue
        try:
            with lsp_nav.NavSession(mos, files, workdir) as sess:
                if sess.diagnostics():
                    stats["discarded"] += 1
                    continue
                tie.load(p)
                cands = [o for o in p.occs if isinstance(o.truth, navgen.Def) or o.role in ("superseg", "ns_def", "anon_label", "brace")]
                sub.shuffle(cands)
                # every role at least once, then random
                picked, roles = [], set()
                for o in cands:
                    kind = o.role + ("/alias" if o.note == "alias_use" else "")     # uses of an import alias are a role of their own
                    if kind not in roles:
                        picked.append(o)
                        roles.add(kind)
                for o in cands:
                    if len(picked) >= per_program:
                        break
                    if o not in picked:
                        picked.append(o)
                for o in picked:
                    mid = o.col + (len(o.text) // 2 if len(o.text) > 1 else 0)
                    stats["occurrences_asked"] += 1
                    offer = sess.prepare_rename(o.file, o.line, mid)
                    _, mprep = tie.classify(o, mid)
                    tie.n["prepare_requests"] += 1
                    if mprep is not None and mprep != (offer is not None):
                        chk.tie_break("correspondence:prepare_rename", "model %s, server %s at %s:%d:%d `%s`" % (mprep, offer, o.file, o.line, mid, o.text),
                                      {"files": files, "position": [o.file, o.line, mid]})
                    if offer is None:
                        stats["not_offered"] += 1
                        continue
                    if o.role in ("anon_label", "brace"):
                        chk.oracle_failure(None, "a rename is offered at %s:%d:%d on `%s`, which is no identifier (range %s)" % (
                            o.file, o.line, o.col, o.text, offer), {"files": files, "occurrence": [o.file, o.line, o.col, o.text, o.role]})
                        continue
                    stats["offered"] += 1
                    stats["by_role"][o.role] = stats["by_role"].get(o.role, 0) + 1
                    if offer[1:] != (o.line, o.col, o.line, o.col + len(o.text)):
                        chk.oracle_failure(None, "prepareRename at %s:%d:%d answers the range %s, the identifier is %s" % (
                            o.file, o.line, mid, offer, (o.line, o.col, o.line, o.col + len(o.text))), {"files": files, "occurrence": [o.file, o.line, o.col, o.text]})
                    T = o.truth
                    if not isinstance(T, navgen.Def):
                        continue
                    fresh = p.fresh_name(sub, "r")
                    stats["fresh"] += 1
                    rename_trial(chk, p, sess, probe, o, T, fresh, base_build, stats, "fresh name", tie)
                    others = other_scope_names(p, T)
                    if others and sub.random() < 0.7:
                        stats["other_scope"] += 1
                        rename_trial(chk, p, sess, probe, o, T, sub.choice(others), base_build, stats, "name of another scope", tie)
        except (lsp_nav.ServerSlow, ProbeUnavailable):
            stats["slow_skipped"] = stats.get("slow_skipped", 0) + 1    # a loaded machine is not a verdict
            continue
        except lsp_nav.ServerDied as e:
            chk.oracle_failure(None, "server died: %s" % e, {"files": files})
            continue
        stats["programs"] += 1
        if len(files) > 1:
            stats["multi_file"] += 1
        for f in p.features:
            feats[f] = feats.get(f, 0) + 1
        chk.count(1, 1 if (len({d.name for d in p.defs}) < len(p.defs) or len(files) > 1) else 0)
        chk.sample({"files": files, "features": sorted(p.features)}, limit=3)
    probe.stop()
    tie.finish(stats)
    if stats["discarded"] > 0.2 * (stats["discarded"] + stats["programs"]) + 3:
        chk.tie_break("generator-domain", "%d of %d generated projects no longer assemble or analyse without diagnostics (normally < 6%%)" % (
                      stats["discarded"], stats["discarded"] + stats["programs"]), {"stats": stats})
    chk.cov["rule"] = ("the C16 project generator (shadowed names in nested scopes, dotted/super paths, macros, untaken branches, interpolation, "
                       "imports with and without `as`, comments and plain strings that mention the names); per project up to %d identifier "
                       "occurrences (every role first); at each occurrence where prepareRename offers: rename to a globally fresh name and, where one "
                       "exists, to a name defined only in an unrelated anonymous block; the workspace edit is applied in the LSP manner, the project "
                       "rebuilt (mosprobe asm = mos build): no diagnostics, identical bytes; edited occurrences == byte-level reference set of C16; "
                       "rename back on the edited project restores the text; distinct = distinct project text; non-trivial = shadowing or several files"
                       % per_program)
    chk.extra["distribution"] = {"stats": stats, "features": feats}
    chk.assumptions = ["programs are ASCII", "a rename request mutates the server's symbol table (C14's finding); the check re-sends the buffers after every rename"]
    return chk.finish(extra_trusted=["hand model of rename.rs (model/Rename.v) validated per run against the real server's edits on the real symbol table "
                                     "and Analysis (harness_nav)", "gen/navgen.py ground truth (bytes), drivers/lsp_nav.py apply_edits (ASCII, single-line ranges)"])


def run_corpus_case(chk, name, case, mos, probe, workdir, stats):
    files = case["files"]
    base, errs = build(probe, files)
    with lsp_nav.NavSession(mos, files, workdir) as sess:
        if "no_rename_at" in case:
            for (f, line, col) in case["no_rename_at"]:
                offer = sess.prepare_rename(f, line, col)
                edits = sess.rename(f, line, col, "foo")
                sess.s.did_change("main.asm", files["main.asm"])
                sess.s.barrier()
                stats["renames"] += 1
                if offer is not None or edits:
                    chk.oracle_failure(case.get("class"), "corpus %s (%s): rename offered / performed at %s:%d:%d where no identifier is: offer %s edits %s" % (
                        name, case.get("what", ""), f, line, col, offer, edits), {"corpus": name, "files": files})
            return
        f, line, col, new = case["rename"]
        edits = sess.rename(f, line, col, new)
        stats["renames"] += 1
        klass = case.get("class")
        if edits is None:
            chk.oracle_failure(klass, "corpus %s: no edit" % name, {"corpus": name})
            return
        new_files, problem = lsp_nav.apply_edits(files, edits)
        what = None
        if problem:
            what = "edit cannot be applied: %s" % problem
        else:
            b2, errs2 = build(probe, new_files)
            if b2 is None or errs2:
                what = "the edited project no longer assembles: %s; edits %s" % (errs2, edits)
            elif b2 != base:
                what = "the edited project assembles to different bytes; edits %s" % (edits,)
            elif "expect" in case and new_files != case["expect"]:
                what = "the edited text is %s, expected %s" % (new_files, case["expect"])
        if what:
            chk.oracle_failure(klass, "corpus %s (%s): %s" % (name, case.get("what", ""), what), {"corpus": name, "files": files, "edits": edits})


def replay(chk, path):
    obj = json.load(open(path))
    rep = obj["replay"]
    mos = common.build_mos()
    files = rep["files"]
    with lsp_nav.NavSession(mos, files, os.path.join(common.CACHE, "work")) as sess:
        out = {"diagnostics": sess.diagnostics()}
        if "occurrence" in rep:
            f, line, col, text, role = rep["occurrence"]
            out["edits"] = sess.rename(f, line, col, rep.get("new_name", "renamed"))
        print(json.dumps({"files": files, "answer": out, "recorded": obj.get("what")}, indent=1))
    return 0

"""Correspondence of the extracted model (model/SymGraph.v, model/Analysis.v) with the implementation:

 1. query_traversal_steps / query / query_steps_to_path: model vs mos-core's SymbolTable on the program's final
    symbol table, for EVERY node as the starting scope x every path the program uses (bubbling from every depth,
    dotted, super, failing lookups included);
 2. add_symbol_usage: what the model records for every use statement (scope taken from the real source map) vs the
    usages the real Analysis holds (programs whose last pass starts with the complete table, see `settled`);
 3. find / go-to-definition / references / highlight: the model fed with the real Analysis (observed through
    Analysis::find at every position) vs the answers of the real LSP server at every identifier occurrence.
"""
import common
from common import Proc


def model_graph(nodes):
    """edge list, NEWEST FIRST as far as the public API shows it: `parent(n)` is the source of the OLDEST incoming edge
    (92c8ba5), so for every node the edge from its parent is put after its other incoming edges; `child` does not
    depend on the order of distinct labels."""
    parent_edges, rest = [], []
    for n in nodes:
        for (label, t) in n["children"]:
            e = [n["nx"], label, t]
            tp = next((m["parent"] for m in nodes if m["nx"] == t), None)
            (parent_edges if tp == n["nx"] else rest).append(e)
    return rest + parent_edges


class ModelTie:
    def __init__(self, chk):
        self.chk = chk
        self.nav = Proc([common.build_probe("harness_nav", "mosnav")])
        self.model = Proc([common.build_model("nav")], timeout=600.0)
        self.n = {"qts_queries": 0, "qts_bubbling": 0, "qts_failing": 0, "use_pairs": 0, "use_pairs_skipped_unsettled": 0,
                  "nav_positions": 0, "nav_goto_order_dependent": 0}

    def tie(self, item, what, replay):
        if len([t for t in self.chk.tie_breaks if t[0] == item]) < 3:
            self.chk.tie_break(item, what, replay)

    def check(self, p, server_answers=None):
        files = p.files()
        paths = sorted({".".join(getattr(u, "shown", u.path)) for u in p.uses} | {o.text for o in p.occs if o.role in ("invoke", "arg")})
        r = self.nav.call({"cmd": "nav", "files": files, "greedy": True, "paths": paths}, timeout=600.0)
        if "nodes" not in r:
            if "hang" in r:
                self.n["slow_skipped"] = self.n.get("slow_skipped", 0) + 1
                return
            self.tie("correspondence:probe", "mosnav failed: %s" % str(r)[:300], {"files": files})
            return
        g = model_graph(r["nodes"])
        fuel = len(r["nodes"]) + 2
        # ---- 1. traversal functions
        qs = [[c["scope"], c["path"]] for c in r["cross"]]
        m = self.model.call({"cmd": "qts", "graph": g, "fuel": fuel, "queries": qs}, timeout=600.0)
        if "answers" not in m:
            if "hang" in m:
                self.n["slow_skipped"] = self.n.get("slow_skipped", 0) + 1
                return
            self.tie("correspondence:model", "mosmodel_nav failed: %s" % str(m)[:300], {"files": files})
            return
        for c, a in zip(r["cross"], m["answers"]):
            self.n["qts_queries"] += 1
            if any(s[0] == "super" for s in c["steps"]):
                self.n["qts_bubbling"] += 1
            if c["query"] is None:
                self.n["qts_failing"] += 1
            got = {k: a.get(k) for k in ("steps", "query", "path_super", "path_nosuper")} if a else None
            want = {k: c[k] for k in ("steps", "query", "path_super", "path_nosuper")}
            if got != want:
                self.tie("correspondence:query_traversal_steps", "model and SymbolTable disagree for scope %d path %s" % (c["scope"], c["path"]),
                         {"files": files, "graph": g, "scope": c["scope"], "path": c["path"], "model": got, "impl": want})
        # ---- 2. recording
        fidx = {f: i for i, f in enumerate(sorted(files))}
        real_usages = set()
        for key, d in r["definitions"].items():
            if key.startswith("sym:"):
                for u in d["usages"]:
                    real_usages.add((int(key[4:]), u["scope"], u["file"].split("/")[-1], u["l0"], u["c0"], u["l1"], u["c1"]))
        if getattr(p, "settled", False):
            uses, meta = [], []
            for u in p.uses:
                if not u.assembled and not (u.in_macro is None):
                    continue
                col = min(o.col for o in p.occs if o.stmt is u)
                width = len(".".join(u.path))
                shown = ".".join(getattr(u, "shown", u.path))
                scopes = sorted({e["scope"] for e in r["source_map"] if e["file"].split("/")[-1] == u.file and e["line"] == u.line})
                for sc in scopes:
                    uses.append([sc, shown, [fidx[u.file], u.line, col, u.line, col + width]])
                    meta.append((u, sc, col, width))
            if uses:
                m2 = self.model.call({"cmd": "use_pairs", "graph": g, "fuel": fuel, "uses": uses}, timeout=600.0)
                predicted = set()
                names = sorted(files)
                for (u, sc, col, width), pairs in zip(meta, m2.get("answers", [])):
                    self.n["use_pairs"] += 1
                    for ty, (ps, sp) in pairs:
                        predicted.add((ty[1], ps, names[sp[0]], sp[1], sp[2], sp[3], sp[4]))
                lines = {(u.file, u.line): (col, width) for (u, sc, col, width) in meta}
                real_here = {x for x in real_usages if (x[2], x[3]) in lines and lines[(x[2], x[3])][0] <= x[4] and
                             x[6] <= lines[(x[2], x[3])][0] + lines[(x[2], x[3])][1]}
                if predicted != real_here:
                    self.tie("correspondence:add_symbol_usage", "model records %s, Analysis holds %s" % (
                        sorted(predicted - real_here)[:4], sorted(real_here - predicted)[:4]),
                        {"files": files, "only_model": sorted(predicted - real_here), "only_impl": sorted(real_here - predicted)})
        else:
            self.n["use_pairs_skipped_unsettled"] += 1
        # ---- 3. handlers: model on the real Analysis vs the real server
        if server_answers:
            analysis = []
            for key, d in sorted(r["definitions"].items()):
                def loc(u):
                    return [u["scope"], [fidx[u["file"].split("/")[-1]], u["l0"], u["c0"], u["l1"], u["c1"]]]
                if key.startswith("sym:"):
                    ty = ["sym", int(key[4:])]
                elif key.startswith("una:"):
                    ty = ["una", int("".join(ch for ch in key if ch.isdigit()) or 0)]
                else:
                    ty = ["file", fidx.get(key[5:].split("/")[-1], 99)]
                analysis.append({"ty": ty, "location": loc(d["location"]) if d["location"] else None, "usages": [loc(u) for u in d["usages"]]})
            pos = sorted(server_answers)
            m3 = self.model.call({"cmd": "nav", "analysis": analysis, "positions": [[fidx[f], l, c] for (f, l, c) in pos]}, timeout=600.0)
            names = sorted(files)

            def sp(s):
                return (names[s[0]], s[1], s[2], s[3], s[4]) if s[0] < len(names) else ("?",) + tuple(s[1:])
            for (f, l, c), a in zip(pos, m3.get("answers", [])):
                self.n["nav_positions"] += 1
                sd, st, sf, sh = server_answers[(f, l, c)]
                mt, mf, mh = {sp(x) for x in a["refs_t"]}, {sp(x) for x in a["refs_f"]}, {sp(x) for x in a["highlight"]}
                if (mt, mf, mh) != (set(st or []), set(sf or []), set(sh or [])):
                    self.tie("correspondence:references", "model and server disagree at %s:%d:%d" % (f, l, c),
                             {"files": files, "position": [f, l, c], "model": [sorted(mt), sorted(mf), sorted(mh)],
                              "server": [sorted(set(st or [])), sorted(set(sf or [])), sorted(set(sh or []))]})
                # go-to-definition: first of a hash map; comparable when every found definition has the same site
                locs = set()
                for ty in a["found"]:
                    key = ("sym:%d" % ty[1]) if ty[0] == "sym" else None
                    d = r["definitions"].get(key) if key else None
                    if ty[0] == "una":
                        d = next((v for k, v in r["definitions"].items() if k.startswith("una:") and int("".join(ch for ch in k if ch.isdigit()) or 0) == ty[1]), None)
                    if d is None:
                        d = next((v for k, v in r["definitions"].items() if k.startswith("file:") and fidx.get(k[5:].split("/")[-1]) == ty[1]), None)
                    lo = d["location"] if d else None
                    locs.add(None if lo is None else (lo["file"].split("/")[-1], lo["l0"], lo["c0"], lo["l1"], lo["c1"]))
                if len(locs) <= 1:
                    mg = [sp(a["goto"])] if a["goto"] else []
                    if mg != [tuple(x) for x in sd]:
                        self.tie("correspondence:go_to_definition", "model %s, server %s at %s:%d:%d" % (mg, sd, f, l, c),
                                 {"files": files, "position": [f, l, c], "model": mg, "server": sd})
                else:
                    self.n["nav_goto_order_dependent"] += 1
                    if [tuple(x) for x in sd] and tuple(sd[0]) not in locs:
                        self.tie("correspondence:go_to_definition", "server answers %s, not among the found definitions %s" % (sd, locs),
                                 {"files": files, "position": [f, l, c]})

    def finish(self, stats):
        stats["model_tie"] = self.n
        self.nav.stop()
        self.model.stop()


class RenameTie:
    """model/Rename.v (rename_handler) fed with the real symbol table and the real Analysis (mosnav, greedy as the server)
    vs the workspace edit of the real server, request by request"""

    def __init__(self, chk):
        self.chk = chk
        self.nav = Proc([common.build_probe("harness_nav", "mosnav")])
        self.model = Proc([common.build_model("nav")], timeout=600.0)
        self.n = {"rename_requests": 0, "rename_order_dependent": 0, "prepare_requests": 0, "classified_by_extracted_predicate": 0}
        self.state = None

    def load(self, p):
        files = p.files()
        r = self.nav.call({"cmd": "nav", "files": files, "greedy": True}, timeout=600.0)
        self.state = None
        if "nodes" not in r:
            if "hang" not in r:
                self.chk.tie_break("correspondence:probe", "mosnav failed: %s" % str(r)[:300], {"files": files})
            return
        names = sorted(files)
        fidx = {f: i for i, f in enumerate(names)}
        lines = {f: t.split("\n") for f, t in files.items()}

        def loc(u):
            return [u["scope"], [fidx[u["file"].split("/")[-1]], u["l0"], u["c0"], u["l1"], u["c1"]]]
        def names_in(text):
            """rename.rs names_in: the words of the text with their offsets, except the second one (`as`)"""
            out, off = [], 0
            for idx, w in enumerate(text.split()):
                st = text.index(w, off)
                off = st + len(w)
                if idx != 1:
                    out.append([st, w])
            return out
        analysis, slices = [], []
        for key, d in sorted(r["definitions"].items()):
            ty = (["sym", int(key[4:])] if key.startswith("sym:") else
                  ["una", int("".join(ch for ch in key if ch.isdigit()) or 0)] if key.startswith("una:") else
                  ["file", fidx.get(key[5:].split("/")[-1], 99)])
            analysis.append({"ty": ty, "location": loc(d["location"]) if d["location"] else None, "usages": [loc(u) for u in d["usages"]]})
            for u in d["usages"] + ([d["location"]] if d["location"] else []):
                f = u["file"].split("/")[-1]
                if u["l0"] == u["l1"] and f in lines and u["l0"] < len(lines[f]):
                    slices.append([[fidx[f], u["l0"], u["c0"], u["l1"], u["c1"]], names_in(lines[f][u["l0"]][u["c0"]:u["c1"]])])
        self.state = {"graph": model_graph(r["nodes"]), "analysis": analysis, "slices": slices, "fuel": len(r["nodes"]) + 2,
                      "names": names, "fidx": fidx, "found_at": {(x[0].split("/")[-1], x[1], x[2]): x[3] for x in r["found_at"]},
                      "definitions": r["definitions"], "files": files}

    def check_rename(self, p, o, col, new_name, edits):
        st = self.state
        if st is None:
            return
        found = st["found_at"].get((o.file, o.line, col), [])
        if len(found) > 1:
            self.n["rename_order_dependent"] += 1   # the handler takes the first of a hash map
            return
        m = self.model.call({"cmd": "rename", "analysis": st["analysis"], "names": st["slices"],
                             "requests": [[st["fidx"][o.file], o.line, col, new_name]]}, timeout=600.0)
        self.n["rename_requests"] += 1
        ans = (m.get("answers") or [None])[0]
        if ans is None or isinstance(ans, dict):
            got = None
        else:
            got = sorted((st["names"][sp[0]], sp[1], sp[2], sp[3], sp[4], text) for sp, text in ans)
        want = sorted(edits) if edits is not None else None
        if got != want and len([t for t in self.chk.tie_breaks if t[0] == "correspondence:rename"]) < 3:
            self.chk.tie_break("correspondence:rename", "model and server disagree on the edit for `%s` -> `%s` at %s:%d:%d" % (o.text, new_name, o.file, o.line, col),
                               {"files": st["files"], "position": [o.file, o.line, col], "new_name": new_name, "model": got, "server": want})

    def classify(self, o, col):
        """(Known_import_alias as evaluated by the extracted Coq predicate on the real table / Analysis, model's prepare_rename)"""
        st = self.state
        if st is None:
            return None, None
        # the identifier under the cursor, as the handler determines it: the run of [A-Za-z0-9_] around the column
        line = st["files"][o.file].split("\n")[o.line]
        a, b = col, col
        while a > 0 and (line[a - 1].isalnum() or line[a - 1] == "_"):
            a -= 1
        while b < len(line) and (line[b].isalnum() or line[b] == "_"):
            b += 1
        m = self.model.call({"cmd": "classify_rename", "analysis": st["analysis"],
                             "requests": [[st["fidx"][o.file], o.line, col, line[a:b]]]}, timeout=600.0)
        a = (m.get("answers") or [None])[0]
        if not isinstance(a, dict):
            return None, None
        return None, a.get("prepare")

    def finish(self, stats):
        stats["rename_tie"] = self.n
        self.nav.stop()
        self.model.stop()

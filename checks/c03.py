"""C03 -- expressions evaluate as documented."""
import json
import random

import common
from common import Proc

I64_MIN, I64_MAX = -2 ** 63, 2 ** 63 - 1
OPS = ["+", "-", "*", "/", "%", "<<", ">>", "^", "==", "!=", ">", ">=", "<", "<=", "&&", "||"]
MULCLASS, ADDCLASS = {"*", "/", "%"}, {"+", "-"}
PC0 = 0xC000


def T(s):
    return [ord(c) for c in s]


# ----------------------------------------------------------------- reference semantics (used only to stay inside the domain)
def quot(a, b):
    q = abs(a) // abs(b)
    return q if (a >= 0) == (b >= 0) else -q


def sem_bin(op, a, b):
    if op == "+": return a + b
    if op == "-": return a - b
    if op == "*": return a * b
    if op == "/": return quot(a, b)
    if op == "%": return a - b * quot(a, b)
    if op == "<<": return a * 2 ** b
    if op == ">>": return a >> b
    if op == "^": return a ^ b
    if op == "==": return int(a == b)
    if op == "!=": return int(a != b)
    if op == ">": return int(a > b)
    if op == ">=": return int(a >= b)
    if op == "<": return int(a < b)
    if op == "<=": return int(a <= b)
    if op == "&&": return int(a != 0 and b != 0)
    if op == "||": return int(a != 0 or b != 0)


def in64(v):
    return I64_MIN < v <= I64_MAX and I64_MIN < -v <= I64_MAX


class Gen:
    def __init__(self, rng, consts):
        self.rng, self.consts = rng, consts

    def flags(self, v, allow_neg=True):
        fnot = self.rng.random() < 0.12
        fneg = allow_neg and self.rng.random() < 0.15
        w = -v if fneg else v
        if fnot:
            w = 1 if w == 0 else 0
        return fnot, fneg, w

    def leaf(self):
        r = self.rng.random()
        if r < 0.55:
            v = self.rng.choice([0, 1, 2, 3, 7, 10, 127, 128, 255, 256, 1000, 65535, 65536, 2 ** 31, 2 ** 40,
                                 self.rng.randrange(0, 300), self.rng.randrange(0, 2 ** 20)])
            radix = self.rng.choice([10, 10, 16, 2])
            digits = {10: "%d", 16: "%x", 2: "{0:b}"}[radix]
            digits = digits.format(v) if radix == 2 else digits % v
            if radix == 16 and self.rng.random() < 0.5:
                digits = digits.upper()
            if self.rng.random() < 0.25:
                digits = "0" * self.rng.randrange(1, 4) + digits
            if v in (0, 1) and self.rng.random() < 0.3:
                radix, digits = 10, ("true" if v == 1 else "false")
            # unary minus applies only to an adjacent decimal number / identifier (documented restriction)
            fnot, fneg, w = self.flags(v, allow_neg=(radix == 10))
            return ["num", radix, T(digits), fnot, fneg], w
        if r < 0.85:
            name = self.rng.choice(sorted(self.consts))
            v = self.consts[name]
            m = self.rng.choice([None, None, "<", ">"])
            mv = v if m is None else (v % 256 if m == "<" else (v // 256) % 256)
            fnot, fneg, w = self.flags(mv, allow_neg=(m is None))
            return ["id", [T(p) for p in name.split(".")], m, fnot, fneg], w
        fnot, fneg, w = self.flags(PC0, allow_neg=False)
        return ["pc", fnot, fneg], w

    def tree(self, depth):
        for _ in range(50):
            if depth == 0 or self.rng.random() < 0.25:
                return self.leaf()
            if self.rng.random() < 0.12:
                inner, v = self.tree(depth - 1)
                fnot, _, w = self.flags(v, allow_neg=False)
                if in64(v):
                    return ["parens", inner, fnot, False], w
                continue
            op = self.rng.choice(OPS)
            l, a = self.tree(depth - 1)
            r, b = self.tree(depth - 1)
            if op in ("/", "%") and b == 0:
                continue
            if op in ("<<", ">>") and not (0 <= b <= 31):
                # shift counts are drawn small on purpose
                r, b = ["num", 10, T(str(self.rng.randrange(0, 32))), False, False], None
                b = int("".join(map(chr, r[2])))
            v = sem_bin(op, a, b)
            if not in64(v) or not in64(a) or not in64(b):
                continue
            if op in ("/", "%") and not in64(quot(a, b)):
                continue
            return ["bin", op, l, r], v
        return self.leaf()


def needs_parens(parent, child, is_left):
    """parenthesise wherever the documentation fixes no precedence"""
    if child[0] != "bin":
        return False
    c, p = child[1], parent
    if c in MULCLASS and p in ADDCLASS:
        return False
    if is_left and ((c in MULCLASS and p in MULCLASS) or (c in ADDCLASS and p in ADDCLASS) or (c == p and c not in MULCLASS | ADDCLASS)):
        return False
    return True


def render(rng, e):
    k = e[0]

    def sp():
        return " " * rng.choice([0, 0, 1, 1, 2])

    if k == "bin":
        _, op, l, r = e
        ls = render(rng, l)
        rs = render(rng, r)
        if needs_parens(op, l, True):
            ls = "(" + sp() + ls + sp() + ")"
        if needs_parens(op, r, False):
            rs = "(" + sp() + rs + sp() + ")"
        gap = sp()
        if not rs[0].isalnum() and rs[0] not in "($":
            gap = " " + gap     # keep operator characters apart (`< <x`, `/ *`, `- -1`)
        if rs[0] in "($" and op in ("/",):
            gap = gap or ""
        return ls + sp() + op + gap + rs
    fl = ("!" if e[-2] else "") + ("-" if e[-1] else "")
    if k == "num":
        pre = {10: "", 16: "$", 2: "%"}[e[1]]
        return fl + pre + "".join(map(chr, e[2]))
    if k == "id":
        return fl + (e[2] or "") + ".".join("".join(map(chr, p)) for p in e[1])
    if k == "pc":
        return fl + "*"
    if k == "parens":
        return fl + "(" + sp() + render(rng, e[1]) + sp() + ")"
    raise ValueError(k)


def canon_real(a):
    """mosprobe's expression dump -> the model's canonical JSON form"""
    if a["e"] == "bin":
        return ["bin", a["op"], canon_real(a["l"]), canon_real(a["r"])]
    f = a["f"]
    fl = [a["not"], a["neg"]]
    k = f["k"]
    if k == "num":
        return ["num", f["radix"], T(f["digits"])] + fl
    if k == "id":
        return ["id", [T(p) for p in f["path"]["d"].split(".")], f["mod"]] + fl
    if k == "pc":
        return ["pc"] + fl
    if k == "parens":
        return ["parens", canon_real(f["inner"])] + fl
    if k == "call":
        return ["call", T(f["name"]["d"]), [canon_real(x["e"]) for x in f["args"]]] + fl
    if k == "str":
        items = []
        for it in f["s"]["items"]:
            items.append(["lit", T(it["s"])] if "s" in it else ["path", [T(p) for p in it["p"].split(".")]])
        return ["str", items] + fl
    raise ValueError(k)


CONSTS = {"c0": 0, "c1": 1, "c2": 300, "c3": 70000, "c4": 255, "big": 2 ** 40 + 12345, "s.inner": 513}


def prelude():
    lines = [".const %s = %d" % (k, v) for k, v in CONSTS.items() if "." not in k]
    lines.append("s: { .const inner = 513 }")
    lines.append('.const greeting = "hello"')
    lines.append('.const empty_s = ""')
    lines.append('.const joined = greeting + "!"')
    return "\n".join(lines) + "\n"


def env_json():
    syms = [[[T(p) for p in k.split(".")], ["num", v]] for k, v in CONSTS.items()]
    syms.append([[T("greeting")], ["str", T("hello")]])
    syms.append([[T("empty_s")], ["str", []]])
    syms.append([[T("joined")], ["str", T("hello!")]])
    return {"syms": syms, "pc": PC0}


def hexbytes(r):
    data = "".join(s["data"] for s in r.get("segments", []))
    return [int(data[i:i + 2], 16) for i in range(0, len(data), 2)]


def run(chk):
    rng = random.Random(chk.seed)
    common.translate_for(chk, ["evaluator", "grammar", "textenc"])
    chk.proof = common.prove("C03")
    if chk.tier == "thorough":
        common.coqchk(chk, "C03")
    probe = Proc([common.build_probe()])
    model = Proc([common.build_model()])
    thorough = chk.tier == "thorough"
    n = 12000 if thorough else 2500
    g = Gen(rng, CONSTS)
    env = env_json()
    dist = {"exprs": 0, "depth_ge3": 0, "ops": {o: 0 for o in OPS}, "strings": 0, "parse_agree": 0}
    seen = set()
    pre = prelude()

    def count_ops(e):
        if e[0] == "bin":
            dist["ops"][e[1]] += 1
            return 1 + max(count_ops(e[2]), count_ops(e[3]))
        if e[0] == "parens":
            return count_ops(e[1])
        return 0

    for i in range(n):
        tree, value = g.tree(rng.choice([1, 2, 3, 4, 5]))
        text = render(rng, tree)
        if text in seen:
            continue
        seen.add(text)
        d = count_ops(tree)
        dist["exprs"] += 1
        if d >= 3:
            dist["depth_ge3"] += 1
        chk.count(1, 1 if d >= 1 else 0)
        # --- parser tie: real parse tree vs model parse tree
        rp = probe.call({"cmd": "expr", "src": text})
        mp = model.call({"cmd": "parse_expr", "text": T(text)})
        if rp.get("ok") != mp.get("ok"):
            chk.tie_break("correspondence:parse_expression", "one parser accepts %r, the other does not" % text, {"text": text, "impl": rp.get("ok"), "model": mp.get("ok")})
        elif rp.get("ok"):
            ra = canon_real(rp["ast"])
            if ra != mp["ast"] or rp["hi"] != mp["consumed"]:
                chk.tie_break("correspondence:parse_expression", "parse trees differ for %r" % text,
                              {"text": text, "impl": ra, "model": mp["ast"], "impl_end": rp["hi"], "model_end": mp["consumed"]})
            else:
                dist["parse_agree"] += 1
        # --- evaluation: real bytes vs model bytes vs spec bytes
        # `*` is the address of the data statement: keep it at PC0 by emitting the expression first
        prog = ".dword " + text + "\n" + pre
        r = probe.call({"cmd": "asm", "files": {"main.asm": prog}, "merge": False, "pc": PC0})
        me = model.call({"cmd": "eval_expr", "text": T(text), "env": env, "size": 4})
        sp = model.call({"cmd": "sem_expr", "ast": tree, "env": env, "size": 4})
        if "panic" in r or "hang" in r or not r.get("ok"):
            impl = ("fail", r.get("panic") or [e["msg"] for e in r.get("errors", []) + r.get("parse_errors", [])])
        else:
            impl = ("ok", hexbytes(r)[:4])
        mod = ("ok", me["bytes"]) if me.get("r") == "val" and me.get("bytes") is not None else ("fail", me.get("r"))
        if impl[0] != mod[0] or (impl[0] == "ok" and impl[1] != mod[1]):
            chk.tie_break("correspondence:eval", "model and implementation evaluate %r differently" % text,
                          {"text": text, "impl": impl, "model": mod})
        want = ("ok", sp["bytes"])
        if int(sp["v"]) != value:
            chk.tie_break("generator", "reference semantics of the generator and the Coq spec disagree on %r" % text,
                          {"text": text, "coq": sp["v"], "python": value})
        if impl != want:
            chk.oracle_failure(None, "`.dword %s` emits %s, ordinary integer arithmetic gives %s (value %d)" % (text, impl, want, value),
                               {"text": text, "program": prog, "impl": impl, "spec": want, "tree": tree})
        chk.sample({"text": text, "value": value, "bytes": impl}, limit=5)

    # ---- canonical syntax trees (spec/ExprPrint.v): the text printed by the extracted printer must be parsed by the REAL parser
    #      to the tree the canonical syntax denotes (theorem C03_parse_print states this for the model parser, for all trees)
    LOOSE = ["+", "-", "==", "!=", ">=", "<=", ">", "<", "&&", "||"]
    TIGHT = ["*", "/", "%", "<<", ">>", "^"]

    def canon_factor(d):
        r = rng.random()
        if d > 0 and r < 0.3:
            return ["par", canon_loose(d - 1)]
        if r < 0.65:
            radix = rng.choice([10, 10, 16, 2])
            v = rng.choice([0, 1, 9, 10, 255, 256, 65535, rng.randrange(0, 2 ** 20)])
            digits = {10: "%d" % v, 16: rng.choice(["%x", "%X"]) % v, 2: "{0:b}".format(v)}[radix]
            if rng.random() < 0.2:
                digits = "0" * rng.randrange(1, 3) + digits
            return ["num", radix, T(digits)]
        return ["id", T(rng.choice(["a", "x1", "_b", "c0", "Zed", "label_9", "e", "i", "o", "tmp", "flag", "trueval", "Falsey", "TRUE_", "f"]))]

    def canon_tight(d):
        t = ["T1", canon_factor(d)]
        for _ in range(rng.choice([0, 0, 1, 1, 2, 4])):
            t = ["TBin", t, rng.choice(TIGHT), canon_factor(d)]
        return t

    def canon_loose(d):
        l = ["L1", canon_tight(d)]
        for _ in range(rng.choice([0, 1, 1, 2, 3, 5])):
            l = ["LBin", l, rng.choice(LOOSE), canon_tight(d)]
        return l

    dist["canonical"] = 0
    seen_c = set()
    for i in range(3000 if thorough else 600):
        ct = canon_loose(rng.choice([0, 1, 2, 3]))
        mp = model.call({"cmd": "print_canon", "tree": ct})
        if "text" not in mp:
            chk.tie_break("model", "print_canon failed: %s" % mp, {"tree": ct})
            continue
        if not mp["wf"]:
            chk.tie_break("generator", "generated canonical tree is not well-formed by wf_loose", {"tree": ct})
            continue
        text = "".join(map(chr, mp["text"]))
        if text in seen_c:
            continue
        seen_c.add(text)
        dist["canonical"] += 1
        chk.count(1, 1 if " " in text else 0)
        for follow in ("", ")", ", 1", "\nnop"):
            rp = probe.call({"cmd": "expr", "src": text + follow})
            got = canon_real(rp["ast"]) if rp.get("ok") else None
            if got != mp["ast"] or rp.get("hi") != len(text):
                chk.oracle_failure(None, "the text %r of a canonical syntax tree is not parsed to the tree it denotes (precedence / associativity / "
                                   "parentheses): got %s, expected %s, consumed %s of %d" % (text + follow, got, mp["ast"], rp.get("hi"), len(text)),
                                   {"text": text + follow, "canonical": ct, "impl": got, "spec": mp["ast"]})
                break

    # ---- .text in the three encodings: real assembler vs model (all strings) vs spec (printable ASCII strings)
    dist["text_cases"] = 0
    alphabet = [chr(c) for c in range(32, 127) if chr(c) not in '"{}']
    exotic = ["\u00a3", "\u2191", "\u2190", "\u2501", "\u00e9", "\ufffd", "\u2592", "\u00a0", "\u2713", "\U0001F600", "\t"]
    seen_t = set()
    for i in range(1500 if thorough else 300):
        ln = rng.choice([1, 1, 2, 3, 5, 8, 20])
        if rng.random() < 0.75:
            st = "".join(rng.choice(alphabet) for _ in range(ln))
        else:
            st = "".join(rng.choice(alphabet + exotic * 3) for _ in range(ln))
        enc = rng.choice(["ascii", "petscii", "petscreen", ""])
        if (st, enc) in seen_t:
            continue
        seen_t.add((st, enc))
        dist["text_cases"] += 1
        chk.count(1, 1)
        prog = '.text %s "%s"\n' % (enc, st)
        r = probe.call({"cmd": "asm", "files": {"main.asm": prog}, "merge": False, "pc": PC0})
        got = hexbytes(r) if r.get("ok") else ("fail", r.get("panic") or r.get("errors") or r.get("parse_errors"))
        me = model.call({"cmd": "encode_text", "text": T(st), "enc": enc or "ascii"})
        if got != me.get("bytes"):
            chk.tie_break("correspondence:encode_text", "model and implementation encode %r (%s) differently" % (st, enc),
                          {"program": prog, "impl": got, "model": me.get("bytes")})
        if me.get("spec") is not None and got != me["spec"]:
            chk.oracle_failure(None, "`%s` emits %s, the %s encoding of that text is %s" % (prog.strip(), got, enc or "ascii", me["spec"]),
                               {"program": prog, "impl": got, "spec": me["spec"]})

    # ---- data sizes, strings, defined()
    fixed = []
    for v in [0, 1, 255, 256, 65535, 65536, 2 ** 32 - 1, 2 ** 32, 2 ** 40 + 0x0a0b0c0d, -1, -256, -65537]:
        for size, d in ((1, ".byte"), (2, ".word"), (4, ".dword")):
            expect = [(v >> (8 * i)) & 255 for i in range(size)]
            fixed.append(("%s %d" % (d, v), expect))
    str_cases = [
        ('.text "ab" + "cd"', T("abcd")), ('.text "x{c2}y"', T("x300y")), ('.dword "a" == "a"', [1, 0, 0, 0]),
        ('.dword "a" != "a"', [0, 0, 0, 0]), ('.dword "a" == "b"', [0, 0, 0, 0]), ('.dword "ab" != "a"', [1, 0, 0, 0]),
        ('.byte defined(c1)', [1]), ('.byte defined(nope)', [0]), ('.byte defined(c1) + defined(nope) * 4', [1]),
        ('.byte !defined(nope)', [1]), ('.text "{c3}" + "!"', T("70000!")), ('.text ascii "Az"', T("Az")),
        ('.byte <c3, >c3', [70000 % 256, (70000 // 256) % 256]), ('.byte <big, >big', [(2 ** 40 + 12345) % 256, ((2 ** 40 + 12345) // 256) % 256]),
        ('.byte !-0', [1]), ('.byte !-c1', [0]), ('.dword -c2', [(-300 >> (8 * i)) & 255 for i in range(4)]),
        ('.dword -7 / 2', [(-3 >> (8 * i)) & 255 for i in range(4)]), ('.dword -7 % 3', [(-1 >> (8 * i)) & 255 for i in range(4)]),
        ('.dword 100 / 10 / 5', [2, 0, 0, 0]), ('.dword 2 + 3 * 4', [14, 0, 0, 0]), ('.dword (2 + 3) * 4', [20, 0, 0, 0]),
        ('.dword 10 - 4 - 3', [3, 0, 0, 0]), ('.dword 256 >> 2 >> 1', [32, 0, 0, 0]), ('.dword 2 * 3 % 4', [2, 0, 0, 0]),
        ('.dword $0010 + %0101 + 007', [16 + 5 + 7, 0, 0, 0]), ('.dword true + TRUE * 0 + false', None),
        # defined(x) is 1 exactly when x is defined -- whatever x is bound to: a number (also 0), a string (also ""), a label, a scope path
        ('.byte defined(greeting)', [1]), ('.byte !defined(greeting)', [0]), ('.byte defined(empty_s)', [1]), ('.byte defined(joined)', [1]),
        ('.byte defined(c0)', [1]), ('.byte defined(s.inner)', [1]), ('.byte defined(s.nope)', [0]),
        ('.byte defined(greeting) + defined(c1) * 2 + defined(nope) * 4', [3]),
        ('.text greeting + "!"', T("hello!")), ('.text joined', T("hello!")), ('.text "{greeting}/{c2}"', T("hello/300")),
        ('.dword greeting == "hello"', [1, 0, 0, 0]), ('.dword greeting != joined', [1, 0, 0, 0]), ('.dword joined == (greeting + "!")', [1, 0, 0, 0]),
    ]
    for text, expect in fixed + str_cases:
        if expect is None:
            continue
        prog = text + "\n" + pre
        r = probe.call({"cmd": "asm", "files": {"main.asm": prog}, "merge": False, "pc": PC0})
        dist["strings"] += 1
        chk.count(1, 1)
        got = hexbytes(r)[:len(expect)] if r.get("ok") else ("fail", r.get("panic") or r.get("errors"))
        if got != expect:
            chk.oracle_failure(None, "`%s` emits %s, documented meaning is %s" % (text, got, expect), {"program": prog, "impl": got, "spec": expect})
        # model side (evaluator + data arm) on the same expression
        body = text.split(" ", 1)[1]
        if text.startswith((".byte", ".word", ".dword")) and "," not in body:
            size = {".byte": 1, ".word": 2, ".dword": 4}[text.split(" ", 1)[0]]
            me = model.call({"cmd": "eval_expr", "text": T(body), "env": env, "size": size})
            if me.get("bytes") != expect:
                chk.tie_break("correspondence:eval", "model evaluates %r to %s, implementation/spec %s" % (body, me, expect), {"text": text})
    # ---- expressions outside the documented operators' domain must be an ERROR, never a statement that silently assembles to nothing
    for text in ['.dword 1 + "a"', '.dword "a" + 1', '.byte (1 == 1) + "!"', '.dword "a" * 2', '.byte "a" - "a"', '.word c1 + greeting',
                 '.byte greeting < joined']:
        prog = ".byte 7\n" + text + "\n.byte 9\n" + pre
        r = probe.call({"cmd": "asm", "files": {"main.asm": prog}, "merge": False, "pc": PC0})
        dist["strings"] += 1
        chk.count(1, 1)
        if r.get("ok") or "panic" in r:
            chk.oracle_failure(None, "`%s` is not a meaningful expression, yet the program assembles without a diagnostic to %s" % (
                text, hexbytes(r) if r.get("ok") else r.get("panic")), {"program": prog, "impl": hexbytes(r) if r.get("ok") else r.get("panic"), "spec": "rejected"})
    probe.stop()
    model.stop()
    chk.cov["rule"] = ("seeded random expression trees (depth <= 5) over literals in three radixes with leading zeros and true/false, constants "
                       "(incl. a dotted path), `*`, all 16 binary operators, `<`/`>` modifiers, `!`/`-` flags, parentheses where the documentation fixes no "
                       "precedence, random spacing; kept inside the no-overflow / non-zero-divisor / shift 0..31 domain; each is parsed by both parsers "
                       "(trees compared), evaluated by both evaluators and by the Coq spec (bytes of `.dword` compared); plus a fixed list of data-size, "
                       "string, interpolation and defined() cases. distinct = distinct text; non-trivial = at least one binary operator")
    chk.extra["distribution"] = dist
    chk.assumptions = ["petscii/petscreen are specified for printable ASCII (32..126); other characters are compared model-vs-implementation only",
                       "the parse/print round trip theorem covers the canonical single-space layout; arbitrary layout is compared between the two parsers on generated texts (and is C08's business)"]
    return chk.finish()


def replay(chk, path):
    """re-run the recorded program on /repo's current tree; exit 1 (with a VIOLATION line) when the recorded failure reproduces"""
    obj = json.load(open(path))
    rp = obj.get("replay") or {}
    probe = Proc([common.build_probe()])
    bad = None
    out = {}
    if "program" in rp:
        r = probe.call({"cmd": "asm", "files": {"main.asm": rp["program"]}, "merge": False, "pc": PC0})
        got = hexbytes(r) if r.get("ok") else ("fail", r.get("panic") or [e["msg"] for e in r.get("errors", []) + r.get("parse_errors", [])])
        spec = rp.get("spec")
        out = {"program": rp["program"], "impl_now": got, "demanded": spec}
        if spec == "rejected":
            bad = bool(r.get("ok")) or "panic" in r
        elif isinstance(spec, list) and len(spec) == 2 and spec[0] == "ok":
            bad = not (r.get("ok") and got[:len(spec[1])] == spec[1])
        elif isinstance(spec, list):
            bad = not (r.get("ok") and got[:len(spec)] == spec)
    elif "text" in rp and "spec" in rp:
        rr = probe.call({"cmd": "expr", "src": rp["text"]})
        got = canon_real(rr["ast"]) if rr.get("ok") else None
        out = {"text": rp["text"], "impl_now": got, "demanded": rp["spec"]}
        bad = got != rp["spec"]
    else:
        print(json.dumps(obj, indent=1)[:3000])
        print("this replay file names a broken proof obligation / tie, not an input; re-run ./check C03")
    probe.stop()
    out["reproduces"] = bad
    print(json.dumps(out, indent=1, default=str))
    if bad:
        print("VIOLATION property=C03 replay=%s" % path)
        return 1
    return 0

"""G-prog: grammar-based assembler programs for C02 / C07 (shared by checks/c02.py and checks/c07.py).

A program is generated in two phases: first the statement tree with all definitions (labels, constants, macros,
scopes, segments), then every operand expression is filled in with references chosen from what is visible at that
point by mos' scoping rules: bare names (bubbling), `super.` chains, dotted paths into labelled blocks, other
segments' labels, `segments.<n>.start/end`.  References go forwards and backwards; one segment starts shortly below
$0100 so that zero-page/absolute operand sizes (and with them all later addresses) depend on the resolution of
forward references."""
import random

IMPLIED = ["nop", "inx", "iny", "dex", "dey", "clc", "sec", "tax", "tay", "txa", "tya", "pha", "pla", "rts"]
ZPABS = ["lda", "sta", "ldx", "ldy", "adc", "and", "cmp", "ora", "eor", "sbc", "stx", "sty", "inc", "dec", "asl", "lsr", "bit", "cpx", "cpy"]
ABSONLY = ["jmp", "jsr"]
IMM = ["lda", "ldx", "ldy", "adc", "and", "cmp", "ora", "eor", "sbc", "cpx", "cpy"]
INDEXED_X = ["lda", "sta", "adc", "and", "cmp", "ora", "eor", "sbc", "ldy", "inc", "dec", "asl", "lsr"]
INDEXED_Y = ["lda", "sta", "adc", "and", "cmp", "ora", "eor", "sbc", "ldx"]
BRANCH = ["bne", "beq", "bcc", "bcs", "bpl", "bmi"]


class Scope:
    def __init__(self, parent, name, kind):
        self.parent, self.name, self.kind = parent, name, kind      # kind: root|braces|label|loop|macro|import|if
        self.labels, self.consts, self.named_children = [], [], []
        self.in_macro = parent.in_macro if parent else False
        if kind == "macro":
            self.in_macro = True

    def chain(self):
        s = self
        while s:
            yield s
            s = s.parent


class Ref:
    """placeholder for an address-valued expression, filled in at render time"""

    def __init__(self, scope, want="addr"):
        self.scope, self.want = scope, want


class Gen:
    def __init__(self, rng, features=None, size=None):
        self.rng = rng
        self.f = {"segments": True, "macros": True, "loops": True, "ifs": True, "imports": True, "vars": True, "align": True,
                  "pcset": True, "text": True, "super": True, "idioms": True}
        if features:
            self.f.update(features)
        self.n = 0
        self.size = size or rng.choice([6, 10, 16, 24, 36, 50])
        self.budget = self.size
        self.root = Scope(None, None, "root")
        self.all_labels = []         # (scope, name) of labels defined directly at root level of the main file or an imported `*` file
        self.macros = []             # (name, nparams)
        self.segments = []           # names
        self.files = {}
        self.stats = {"kinds": {}, "max_depth": 0, "nested_constructs": 0}
        self.imported_names = []
        self.tail = []
        self.head = []           # statements placed in front of the generated body (after the segment definitions)               # statements appended at the very end (late definitions that earlier code refers to)
        self.nscoped = 0

    def fresh(self, p):
        self.n += 1
        return "%s%d" % (p, self.n)

    def kind(self, k):
        self.stats["kinds"][k] = self.stats["kinds"].get(k, 0) + 1

    # ---------------------------------------------------------------- structure
    def block(self, scope, depth, maxn, in_construct=False, nodefs=False):
        out = []
        n = self.rng.randint(1, maxn)
        for _ in range(n):
            if self.budget <= 0:
                break
            out.append(self.stmt(scope, depth, in_construct, nodefs))
        if not out:
            out.append(("instr0", "nop"))
        return out

    def stmt(self, scope, depth, in_construct=False, nodefs=False):
        self.budget -= 1
        self.stats["max_depth"] = max(self.stats["max_depth"], depth)
        r = self.rng.random()
        deep = depth >= 4
        f = self.f
        if nodefs and (0.40 <= r < 0.52 or 0.58 <= r < 0.66):
            # an `.if` branch is not a scope: what it defines would only exist when the branch is taken
            r = 0.0
        if f.get("idioms") and not scope.in_macro and not nodefs and self.budget > 4 and self.rng.random() < 0.04:
            return self.idiom(scope, depth)
        if r < 0.30:
            return self.instr(scope)
        if r < 0.40:
            self.kind("data")
            size = self.rng.choice([".byte", ".word", ".word", ".dword"])
            return ("data", size, [self.value(scope, size) for _ in range(self.rng.randint(1, 3))])
        if r < 0.52:
            self.kind("label")
            name = self.fresh("l") if self.rng.random() < 0.85 else self.rng.choice(["sh", "sh", "t"])
            if name in scope.labels or name in scope.consts:
                name = self.fresh("l")
            scope.labels.append(name)
            if scope.kind == "root":
                self.all_labels.append(name)
            if not deep and self.rng.random() < 0.3:
                self.kind("label_block")
                child = Scope(scope, name, "label")
                scope.named_children.append(child)
                if in_construct:
                    self.stats["nested_constructs"] += 1
                return ("label", name, self.block(child, depth + 1, 4, True))
            return ("label", name, None)
        if r < 0.58 and not deep:
            self.kind("braces")
            child = Scope(scope, None, "braces")
            if in_construct:
                self.stats["nested_constructs"] += 1
            body = self.block(child, depth + 1, 4, True)
            if self.rng.random() < 0.5:
                body.append(("branch", self.rng.choice(BRANCH), self.rng.choice(["-", "+"])))
            return ("braces", body)
        if r < 0.63:
            self.kind("const")
            name = self.fresh("c")
            scope.consts.append(name)
            return ("const", name, self.value(scope, ".word"))
        if r < 0.66 and f["vars"]:
            self.kind("var")
            name = self.fresh("v")
            scope.consts.append(name)
            return ("var", name, self.rng.choice([0, 1, 5, 200, 255, 256, 300]))
        if r < 0.70 and f["pcset"] and depth == 0 and not scope.in_macro:
            self.kind("pcset")
            return ("pcset", self.rng.choice([1, 2, 3, 5, 8, 16, 40]))
        if r < 0.74 and f["align"] and not scope.in_macro:
            self.kind("align")
            return ("align", self.rng.choice([2, 4, 4, 8, 16, 32]))
        if r < 0.79 and f["ifs"] and not deep:
            self.kind("if")
            if in_construct:
                self.stats["nested_constructs"] += 1
            cond = self.cond(scope)
            a = self.block(scope, depth + 1, 3, True, True)
            b = self.block(scope, depth + 1, 3, True, True) if self.rng.random() < 0.5 else None
            return ("if", cond, a, b)
        if r < 0.84 and f["loops"] and not deep:
            self.kind("loop")
            if in_construct:
                self.stats["nested_constructs"] += 1
            child = Scope(scope, None, "loop")
            child.consts.append("index")
            cnt = self.rng.choice([0, 1, 2, 2, 3, 4])
            body = self.block(child, depth + 1, 3, True)
            if self.rng.random() < 0.4:
                body.append(("branch", self.rng.choice(BRANCH), self.rng.choice(["-", "+"])))
            if self.rng.random() < 0.5:
                body.append(("instr_imm_raw", self.rng.choice(IMM), "index" if self.rng.random() < 0.7 else "index * 2 + 1"))
            return ("loop", cnt, body)
        if r < 0.90 and f["macros"] and self.macros and not deep:
            self.kind("invoke")
            if in_construct:
                self.stats["nested_constructs"] += 1
            name, npar, idx = self.rng.choice(self.macros)
            if scope.in_macro:
                # no recursion: only macros defined earlier than the one we are in
                cands = [m for m in self.macros if m[2] < scope_macro_index(scope)]
                if not cands:
                    return self.instr(scope)
                name, npar, idx = self.rng.choice(cands)
            return ("invoke", name, [self.value(scope, ".word") for _ in range(npar)])
        if r < 0.94 and f["segments"] and self.segments and depth <= 1 and not scope.in_macro and scope.kind in ("root", "braces", "label"):
            self.kind("segment_block")
            seg = self.rng.choice(self.segments)
            return ("segblock", seg, self.block(scope, depth + 1, 3, in_construct, nodefs))
        if r < 0.97 and f["text"]:
            self.kind("text")
            return ("text", self.rng.choice(["hi", "A", "mos 6502", "x{c}y"]))
        return self.instr(scope)

    # ---------------------------------------------------------------- idioms (shapes that plain random choice almost never builds)
    def idiom(self, scope, depth):
        rng = self.rng
        self.budget -= 3
        if rng.random() < 0.3:
            # a conditional branch whose distance in the FINAL layout is on the boundary of the signed byte (-129 .. -127,
            # 126 .. 129); the bytes in between come from instructions on constants that are defined at the end of the file
            # (2 or 3 bytes, known only after the first pass) and plain data
            self.kind("idiom_branch_boundary")
            t = self.fresh("bt")
            d = rng.choice([-129, -128, -127, 126, 127, 128, 129])
            self.stats.setdefault("branch_distance", {})
            self.stats["branch_distance"][str(d)] = self.stats["branch_distance"].get(str(d), 0) + 1
            size = d if d > 0 else -d - 2          # bytes between the branch and its target
            filler = []
            for _ in range(rng.randint(1, 4)):
                k = self.fresh("late")
                zp = rng.random() < 0.5
                self.tail.append(("raw", ".const %s = %s" % (k, rng.choice(["$10", "$fb", "255"]) if zp else rng.choice(["$100", "$1234", "256"]))))
                filler.append(("raw", "%s %s" % (rng.choice(["lda", "sta", "cmp", "adc"]), k)))
                size -= 2 if zp else 3
            while size > 0:
                n = min(size, rng.choice([1, 7, 16, 16]))
                filler.append(("raw", ".byte " + ", ".join(["%d" % rng.randrange(256)] * n)) if n > 1 or rng.random() < 0.5 else ("raw", "nop"))
                size -= n
            rng.shuffle(filler)
            br = ("raw", "%s %s" % (rng.choice(["bne", "beq", "bcc", "bcs", "bpl", "bmi", "bvc", "bvs"]), t))
            lab = ("raw", "%s:" % t)
            return ("seq", [br] + filler + [lab, ("raw", "nop")] if d > 0 else [lab] + filler + [br])
        if self.f["macros"] and rng.random() < 0.3:
            # a macro that is defined at the end of the file and whose body invokes other macros, followed by invocations of
            # known macros: one reads a name that the next one defines as a label (and that also exists further out).
            # The scope names `$macro_<n>` of the later invocations must not depend on the pass (5239ce9)
            self.kind("idiom_forward_nested_macro")
            i = self.fresh("fm")
            x = "x" + i
            nest = rng.randint(1, 3)
            self.tail += [("raw", ".macro in%s() { %s }" % (i, rng.choice(["nop", "inx", ".byte 1"])))]
            self.tail += [("raw", ".macro a%s() { %s }" % (i, "\n".join(["in%s()" % i] * nest + [rng.choice(["nop", "dex"])])))]
            self.tail += [("raw", "%s: rts" % x)]
            self.head += [("raw", ".macro b%s() { %s %s }" % (i, rng.choice(["lda", "jmp", "ldx"]), x)),
                          ("raw", ".macro c%s() { %s: nop }" % (i, x))]
            seq = [("raw", "a%s()" % i), ("raw", "b%s()" % i)]
            seq += [("raw", "c%s()" % i)] * rng.randint(1, 3)
            if rng.random() < 0.5:
                seq.append(("raw", "b%s()" % i))
            return ("seq", seq)
        if rng.random() < 0.55 or not self.f["imports"] or self.nscoped >= 2:
            # `.if` on a constant that is only defined at the end of the file (possibly through another late constant), whose
            # not-selected branch defines a constant / a label that other code observes (defined(..), a same-named outer label)
            self.kind("idiom_late_condition")
            k = self.fresh("late")
            val = rng.choice([0, 1, 1, 2])
            if rng.random() < 0.6:
                k0 = self.fresh("late")
                self.tail += [("raw", ".const %s = %s" % (k, k0)), ("raw", ".const %s = %d" % (k0, val))]
            else:
                self.tail.append(("raw", ".const %s = %d" % (k, val)))
            g = self.fresh("g")
            lbl = rng.choice(["sh", "t", self.fresh("l")])
            if lbl not in scope.labels and rng.random() < 0.7:
                scope.labels.append(lbl)
                outer = [("raw", "%s: nop" % lbl)]
            else:
                outer = []
            taken = [("instr0", rng.choice(IMPLIED)), self.instr(scope)]
            other = [("raw", ".const %s = 1" % g), ("instr0", rng.choice(IMPLIED))]
            if val:
                first = ("raw_if", k, taken, other)
            else:
                first = ("raw_if", k, other, taken)
            inner_taken = [("instr_imm_raw", "lda", "1")]
            inner_other = [("raw", "%s: lda #2" % lbl)]
            second = ("braces", [("raw_if", k, inner_taken, inner_other) if val else ("raw_if", k, inner_other, inner_taken),
                                 ("raw", "jmp %s" % lbl)]) if outer else ("instr0", "nop")
            observer = ("raw_if", "defined(%s)" % g, [("raw", ".byte $ff")], None)
            return ("seq", outer + [first, second, observer])
        # an aliased wildcard import inside a nested scope, used inside, and observed from outside / repeated in a sibling scope
        self.kind("idiom_scoped_alias_import")
        self.nscoped += 1
        i = 10 + self.nscoped
        fname = "lib%d.asm" % i
        ns = "cfg%d" % self.nscoped
        self.files[fname] = "x%d: .byte 1, 2\ny%d: rts\n.const k%d = %d\n" % (i, i, i, rng.choice([3, 255, 256]))
        use = [("raw", ".import * as %s from \"%s\"" % (ns, fname)), ("raw", "lda %s.x%d" % (ns, i)), ("raw", "ldx #%s.k%d" % (ns, i))]
        first = ("braces", use)
        rest = []
        if rng.random() < 0.5:
            rest.append(("braces", [("raw", ".import * as %s from \"%s\"" % (ns, fname)), ("raw", "jsr %s.y%d" % (ns, i))]))
        if rng.random() < 0.7:
            rest.append(("raw_if", "defined(%s.x%d)" % (ns, i), [("raw", ".byte $ee")], [("raw", ".byte $dd")]))
        return ("seq", [first] + rest)

    def instr(self, scope):
        r = self.rng.random()
        if r < 0.25:
            self.kind("instr_implied")
            return ("instr0", self.rng.choice(IMPLIED))
        if r < 0.40:
            self.kind("instr_imm")
            return ("instr_imm", self.rng.choice(IMM), self.value(scope, ".byte"))
        self.kind("instr_addr")
        form = self.rng.random()
        if form < 0.6:
            return ("instr_abs", self.rng.choice(ZPABS + ABSONLY), Ref(scope), "")
        if form < 0.8:
            return ("instr_abs", self.rng.choice(INDEXED_X), Ref(scope), ",x")
        if form < 0.92:
            return ("instr_abs", self.rng.choice(INDEXED_Y), Ref(scope), ",y")
        return ("instr_ind", "jmp", Ref(scope))

    def value(self, scope, size):
        r = self.rng.random()
        if size != ".byte" and self.rng.random() < 0.012:
            # a number combined with a string: an error once both sides are known (2b7ca67), never "nothing"
            self.kind("mixed_number_string")
            return ("rawv", self.rng.choice(['1 + "a"', '"a" + 1', '(1 == 1) + "!"', '"x" == 1', '%s + "s"' % self.ref_name_only(Ref(scope)),
                                             '"s" - %s' % self.ref_name_only(Ref(scope))]))
        if r < 0.35:
            return ("lit", self.rng.choice([0, 1, 2, 7, 127, 128, 200, 255] if size == ".byte" else [0, 1, 255, 256, 257, 1000, 4096, 65535]))
        if size == ".byte":
            return ("lohi", self.rng.choice("<>"), Ref(scope))
        if r < 0.8:
            return ("ref", Ref(scope))
        return ("diff", Ref(scope), Ref(scope))

    def cond(self, scope):
        r = self.rng.random()
        if r < 0.3:
            return ("lit", self.rng.choice([0, 1]))
        if r < 0.55:
            return ("defined", Ref(scope, "any"), self.rng.random() < 0.3)
        return ("cmp", Ref(scope), self.rng.choice(["<", ">=", "==", "!="]), self.rng.choice([255, 256, 257, 300, 0x100 + self.rng.randrange(-8, 24)]))

    # ---------------------------------------------------------------- whole program
    def program(self):
        rng = self.rng
        top = []
        nseg = rng.choice([0, 0, 1, 2, 2, 3, 4]) if self.f["segments"] else 0
        low_used = False
        for i in range(nseg):
            name = "s%d" % i
            low = not low_used and rng.random() < 0.7
            if low:
                start = "$%02x" % rng.randrange(0x90, 0xfa)
                low_used = True
            elif self.segments and rng.random() < 0.4:
                start = "segments.%s.end" % rng.choice(self.segments) + rng.choice(["", " + 16"])
            else:
                start = "$%04x" % rng.choice([0x0400, 0x1000, 0x2000, 0x2100, 0x8000, 0xc000, 0x00ff, 0x0100])
            pc = ""
            if rng.random() < 0.35:
                pc = " pc = $%04x" % rng.choice([0x0080, 0x00f0, 0x0200, 0x4000, 0xe000])
            self.segments.append(name)
            top.append(("defseg", name, start, pc))
        self.use_default_low = nseg == 0 and rng.random() < 0.75
        nmac = rng.choice([0, 0, 1, 2, 3]) if self.f["macros"] else 0
        macro_defs = []
        for i in range(nmac):
            name = "m%d" % i
            npar = rng.choice([0, 1, 1, 2])
            ms = Scope(self.root, None, "macro")
            ms.macro_index = i
            params = ["p%d" % k for k in range(npar)]
            ms.consts += params
            self.macros.append((name, npar, i))
            save = self.budget
            self.budget = min(self.budget, 5)
            body = self.block(ms, 1, 4, True)
            self.budget = save - 2
            macro_defs.append(("macrodef", name, params, body))
            self.kind("macrodef")
        nimp = rng.choice([0, 0, 0, 1, 1, 2]) if self.f["imports"] else 0
        imports = []
        for i in range(nimp):
            imports.append(self.make_import(i))
        body = []
        while self.budget > 0:
            body.append(self.stmt(self.root, 0))
        # macro definitions and imports go to random places at the top level
        for extra in macro_defs + imports:
            body.insert(rng.randint(0, len(body)), extra)
        # `.segment "x"` without a block selects x for the rest of the file -- not for the beginning of the next pass (acfe737)
        if self.segments and rng.random() < 0.45:
            for _ in range(rng.choice([1, 1, 2])):
                body.insert(rng.randint(max(1, len(body) // 2), len(body)), ("raw", '.segment "%s"' % rng.choice(self.segments)))
                self.kind("segment_statement")
        if self.segments and rng.random() < 0.03:
            # a statement in front of the first segment definition: it has no segment in the first pass and would be lost when the
            # segment is defined again in the later ones -- a diagnostic since 65d4f0f, never a silent loss
            self.kind("code_before_first_segment")
            top.insert(0, ("raw", rng.choice(["nop", "lda #1", ".byte 1, 2", "jmp $1234"])))
        top += self.head + body + self.tail
        lines = []
        for s in top:
            self.render(s, 0, lines, self.root)
        src = "\n".join(lines) + "\n"
        return src, dict(self.files)

    def make_import(self, i):
        rng = self.rng
        fname = "lib%d.asm" % i
        names = []
        lines = []
        for k in range(rng.randint(1, 4)):
            if rng.random() < 0.6:
                n = "x%d_%d" % (i, k)
                names.append(n)
                if names[:-1] and rng.random() < 0.45:
                    # a label block that uses the file's own names: they must stay visible after the label was exported (92c8ba5)
                    o = rng.choice(names[:-1])
                    lines.append("%s: { %s %s\n  rts }" % (n, rng.choice(["lda", "ldx", "cmp"]), ("#<" + o) if o.startswith("k") else o))
                    self.kind("import_block_uses_file_name")
                else:
                    lines.append("%s: %s" % (n, rng.choice(["nop", "rts", ".byte 1, 2", "lda $%x" % rng.choice([0x10, 0xff, 0x100])])))
            else:
                n = "k%d_%d" % (i, k)
                names.append(n)
                lines.append(".const %s = %d" % (n, rng.choice([1, 255, 256, 1000])))
        if rng.random() < 0.3:
            lines.append("{ lda %s\n  bne - }" % names[0])
        self.files[fname] = "\n".join(lines) + "\n"
        self.kind("import")
        mode = rng.random()
        if mode < 0.4:
            self.root.consts += names
            return ("import", "* from \"%s\"" % fname)
        if mode < 0.55:
            ns = "ns%d" % i
            child = Scope(self.root, ns, "import")
            child.labels += names
            self.root.named_children.append(child)
            return ("import", "* as %s from \"%s\"" % (ns, fname))
        picked = rng.sample(names, rng.randint(1, len(names)))
        parts = []
        for n in picked:
            if rng.random() < 0.3:
                alias = n + "a"
                parts.append("%s as %s" % (n, alias))
                self.root.consts.append(alias)
            else:
                parts.append(n)
                self.root.consts.append(n)
        return ("import", "%s from \"%s\"" % (", ".join(parts), fname))

    # ---------------------------------------------------------------- references
    def candidates(self, scope, any_ok=False):
        """names that resolve from `scope` in the final symbol table"""
        out = []
        if scope.in_macro:
            # a macro body is evaluated in the scope chain of its invocation: parameters, its own labels, root names
            s = scope
            while s and s.kind != "macro":
                out += s.labels + [c for c in s.consts]
                s = s.parent
            if s:
                out += s.labels + s.consts
            out += self.root.labels + self.root.consts
            for ch in self.root.named_children:
                out += ["%s.%s" % (ch.name, l) for l in ch.labels]
            return out
        k = 0
        for a in scope.chain():
            names = a.labels + a.consts
            out += names
            if k >= 1 and self.f["super"]:
                # `super` steps one scope node up; an `.if` block is not a scope
                out += ["super." * k + n for n in names]
            for ch in a.named_children:
                if ch.name:
                    out += ["%s.%s" % (ch.name, l) for l in ch.labels]
            k += 1
        for sname in self.segments:
            out += ["segments.%s.start" % sname, "segments.%s.end" % sname]
        return out

    def ref(self, r):
        c = self.candidates(r.scope)
        roll = self.rng.random()
        if not c or roll < 0.03:
            return self.rng.choice(["$10", "$fe", "$0100", "$1234", "undefined_name"][: 5 if roll < 0.01 else 4])
        name = self.rng.choice(c)
        if self.rng.random() < 0.25:
            return "%s %s %d" % (name, self.rng.choice("+-"), self.rng.choice([1, 2, 3, 16]))
        return name

    # ---------------------------------------------------------------- rendering
    def rv(self, v):
        k = v[0]
        if k == "lit":
            return self.rng.choice(["%d", "$%x"]) % v[1]
        if k == "rawv":
            return v[1]
        if k == "lohi":
            return v[1] + self.ref_name_only(v[2])
        if k == "ref":
            return self.ref(v[1])
        if k == "diff":
            return "%s - %s" % (self.ref_name_only(v[1]), self.ref_name_only(v[2]))
        raise ValueError(k)

    def ref_name_only(self, r):
        c = self.candidates(r.scope)
        return self.rng.choice(c) if c else "$1234"

    def render(self, s, ind, out, scope):
        p = "    " * ind
        k = s[0]
        if k == "defseg":
            out.append('%s.define segment { name = "%s" start = %s%s }' % (p, s[1], s[2], s[3]))
        elif k == "instr0":
            out.append(p + s[1])
        elif k == "instr_imm":
            out.append("%s%s #%s" % (p, s[1], self.rv(s[2])))
        elif k == "instr_imm_raw":
            out.append("%s%s #%s" % (p, s[1], s[2]))
        elif k == "instr_abs":
            out.append("%s%s %s%s" % (p, s[1], self.ref(s[2]), s[3]))
        elif k == "instr_ind":
            out.append("%s%s (%s)" % (p, s[1], self.ref(s[2])))
        elif k == "branch":
            out.append("%s%s %s" % (p, s[1], s[2]))
        elif k == "data":
            out.append("%s%s %s" % (p, s[1], ", ".join(self.rv(v) for v in s[2])))
        elif k == "label":
            if s[2] is None:
                out.append("%s%s:" % (p, s[1]))
            else:
                out.append("%s%s: {" % (p, s[1]))
                for t in s[2]:
                    self.render(t, ind + 1, out, scope)
                out.append(p + "}")
        elif k == "braces":
            if out and out[-1].strip().startswith(".import "):
                out.append(p + "nop")       # a `{` right after an import would be parsed as the import's parameter block
            out.append(p + "{")
            for t in s[1]:
                self.render(t, ind + 1, out, scope)
            out.append(p + "}")
        elif k == "const":
            out.append("%s.const %s = %s" % (p, s[1], self.rv(s[2])))
        elif k == "var":
            out.append("%s.var %s = %d" % (p, s[1], s[2]))
        elif k == "pcset":
            out.append("%s* = * + %d" % (p, s[1]))
        elif k == "align":
            out.append("%s.align %d" % (p, s[1]))
        elif k == "if":
            c = s[1]
            if c[0] == "lit":
                ct = str(c[1])
            elif c[0] == "defined":
                cs = self.candidates(c[1].scope)
                nm = self.rng.choice(cs) if cs and not c[2] else "nowhere_defined"
                ct = "defined(%s)" % nm
            else:
                ct = "%s %s %d" % (self.ref_name_only(c[1]), c[2], c[3])
            out.append("%s.if %s {" % (p, ct))
            for t in s[2]:
                self.render(t, ind + 1, out, scope)
            if s[3] is not None:
                out.append(p + "} else {")
                for t in s[3]:
                    self.render(t, ind + 1, out, scope)
            out.append(p + "}")
        elif k == "loop":
            out.append("%s.loop %d {" % (p, s[1]))
            for t in s[2]:
                self.render(t, ind + 1, out, scope)
            out.append(p + "}")
        elif k == "macrodef":
            out.append("%s.macro %s(%s) {" % (p, s[1], ", ".join(s[2])))
            for t in s[3]:
                self.render(t, ind + 1, out, scope)
            out.append(p + "}")
        elif k == "invoke":
            out.append("%s%s(%s)" % (p, s[1], ", ".join(self.rv(v) for v in s[2])))
        elif k == "segblock":
            out.append('%s.segment "%s" {' % (p, s[1]))
            for t in s[2]:
                self.render(t, ind + 1, out, scope)
            out.append(p + "}")
        elif k == "text":
            t = s[1]
            if "{c}" in t:
                cs = [c for c in self.root.consts if c.startswith("c")]
                t = t.replace("{c}", "{%s}" % cs[0]) if cs else "xy"
            out.append('%s.text "%s"' % (p, t))
        elif k == "import":
            out.append("%s.import %s" % (p, s[1]))
        elif k == "raw":
            out.append(p + s[1])
        elif k == "seq":
            for t in s[1]:
                self.render(t, ind, out, scope)
        elif k == "raw_if":
            out.append("%s.if %s {" % (p, s[1]))
            for t in s[2]:
                self.render(t, ind + 1, out, scope)
            if s[3] is not None:
                out.append(p + "} else {")
                for t in s[3]:
                    self.render(t, ind + 1, out, scope)
            out.append(p + "}")
        else:
            raise ValueError(k)


def scope_macro_index(scope):
    s = scope
    while s and s.kind != "macro":
        s = s.parent
    return getattr(s, "macro_index", 0) if s else 0


def generate(rng, features=None, size=None):
    g = Gen(rng, features, size)
    src, files = g.program()
    opts = {}
    if g.use_default_low:
        opts["pc"] = rng.randrange(0x90, 0xfa)
    return src, files, opts, g.stats

"""C02 -- a successful build is a fixed point: labels are addresses, operands final."""
import glob
import json
import os
import random
import re

import asmgen
import common
from common import Proc

KINDS = [
    (r"cannot redefine symbol", "redefine"), (r"segment '.*' is out of range", "segment_range"),
    (r"Unknown definition type", "unknown_definition"), (r"field not allowed", "field_not_allowed"),
    (r"missing required fields", "missing_fields"), (r"could not evaluate configuration key", "config_key"),
    (r"branch too far", "branch_too_far"), (r"invalid instruction", "invalid_instruction"),
    (r"unknown identifier", "unknown_identifier"), (r"does not evaluate to an integer", "not_integer"),
    (r"does not evaluate to a string", "not_string"), (r"cannot apply operation .* on a number and a string", "eval:mixedop"), (r"cannot apply operation", "eval:strop"),
    (r"unknown function", "eval:unknown_function"), (r"expected \d+ arguments", "eval:arg_count"),
    (r"could not interpolate", "eval:interpolate"), (r"cannot import an already defined symbol", "import_defined"),
    (r"cannot align", "align"), (r"is not a valid name", "invalid_name"), (r"did not converge", "not_converged"),
    (r"must lie between 0 and \$(?:10000|FFFF)|relocated address would be negative", "pc_range"),   # C06 program-counter range fix
    (r"is defined after code was assembled into it", "segment_has_code"),
    (r"overflow", "eval:overflow"), (r"cyclic import", "cyclic_import"),
    (r"cannot loop", "loop_limit"), (r"may be nested at most", "nesting_limit"),
]


def kind_of(msg):
    for pat, k in KINDS:
        if re.search(pat, msg):
            return k
    return "other:" + msg[:40]


def impl_segments(r):
    return [(s["name"], s["start"], s["end"], s["data"]) for s in r.get("segments", [])]


def model_segments(m):
    return [(s["name"], int(s["start"]), int(s["end"]), s["data"]) for s in m.get("segments", [])]


def sym_key(rows):
    return sorted((p, t, str(v)) for p, t, v in rows)


def run_case(probe, model, files, opts, extra_pass=True):
    req = {"cmd": "asm", "files": files, "merge": False, "ast": True, "extra_pass": extra_pass, "max_passes": 250}
    req.update(opts)
    r = probe.call(req, timeout=60)
    return r


def correspondence(chk, model, r, files, opts, what):
    """model codegen on the real parse tree vs real codegen"""
    mreq = {"cmd": "codegen", "ast": r.get("ast")}
    mreq.update(opts)
    m = model.call(mreq, timeout=120)
    replay = {"files": files, "opts": opts}
    if "status" not in m:
        chk.tie_break("correspondence:model-crash", "the model did not answer: %s" % str(m)[:200], replay)
        return m, "crash"
    if m["status"] == "aborted":
        # the model does not follow this program (unmodelled construct, panic, non-termination): not compared
        return m, "aborted:" + m.get("fault", "")
    if "panic" in r or "hang" in r or "crash" in r:
        chk.tie_break("correspondence:status", "%s: implementation %s, model %s" % (what, {k: r[k] for k in ("panic", "hang", "crash") if k in r}, m["status"]), replay)
        return m, "impl-crash"
    iok = bool(r.get("ok"))
    if not iok and any(kind_of(e["msg"]) in ("loop_limit", "nesting_limit", "cyclic_import") for e in r.get("errors", [])):
        # limits of the implementation (C06) that the model does not follow: not compared
        return m, "limit"
    if iok != (m["status"] == "done"):
        chk.tie_break("correspondence:status", "%s: implementation ok=%s (%s), model %s (%s)" % (
            what, iok, [e["msg"] for e in r.get("errors", [])][:3], m["status"], m.get("errors", [])[:3]), replay)
        return m, "status"
    if not iok:
        ik = sorted(kind_of(e["msg"]) for e in r.get("errors", []))
        mk = sorted(e["kind"] for e in m.get("errors", []))
        if ik != mk:
            chk.tie_break("correspondence:diagnostics", "%s: implementation reports %s, model %s" % (what, ik, mk), replay)
        return m, "failed"
    if impl_segments(r) != model_segments(m):
        chk.tie_break("correspondence:segments", "%s: segment images differ: impl %s model %s" % (
            what, [(a, b, c, d[:48]) for a, b, c, d in impl_segments(r)], [(a, b, c, d[:48]) for a, b, c, d in model_segments(m)]), replay)
    if sym_key(r["symbols"]) != sym_key(m["symbols"]):
        a, b = set(sym_key(r["symbols"])), set(sym_key(m["symbols"]))
        chk.tie_break("correspondence:symbols", "%s: symbols differ: only impl %s, only model %s" % (what, sorted(a - b)[:6], sorted(b - a)[:6]), replay)
    if r.get("passes") != m.get("passes"):
        chk.tie_break("correspondence:passes", "%s: implementation needs %s passes, model %s" % (what, r.get("passes"), m.get("passes")), replay)
    return m, "done"


def oracle(chk, model, r, files, opts, what):
    """the fixed-point spec evaluated on the implementation's own output; returns (#failures, relayout reply)"""
    replay = {"files": files, "opts": opts}
    fails = 0
    # (a) one more pass changes nothing
    ep = r.get("extra_pass")
    if ep is not None:
        changed = []
        if ep.get("changed_symbols"):
            changed.append("symbols %s" % ep["changed_symbols"][:6])
        before = impl_segments(r)
        after = [(s["name"], s["start"], s["end"], s["data"]) for s in ep.get("segments") or []]
        if before != after:
            diff = [b[0] for b, a in zip(before, after) if b != a] or ["<segment list>"]
            changed.append("bytes/ranges of segment(s) %s" % diff)
        if ep.get("errors") or ep.get("undefined"):
            changed.append("%s error(s), %s undefined symbol(s)" % (ep.get("errors"), ep.get("undefined")))
        if changed:
            fails += 1
            chk.oracle_failure(None, "%s: assembly succeeded, but one more pass over the result changes %s: the output is not a fixed point"
                               % (what, "; ".join(changed)), dict(replay, extra_pass={k: ep.get(k) for k in ("changed_symbols", "changed_segments", "errors", "undefined")}))
    elif "extra_pass_panic" in r:
        fails += 1
        chk.oracle_failure(None, "%s: one more pass over the successful result panics: %s" % (what, r["extra_pass_panic"]), replay)
    # (b) re-derivation of every statement under the final symbol values
    rl = model.call({"cmd": "relayout", "ast": r["ast"], "symbols": r["symbols"], "segments": r["segments"]}, timeout=120)
    if rl.get("status") == "ok":
        exp = {s["name"]: s for s in rl["segments"]}
        problems = []
        for name, start, end, data in impl_segments(r):
            e = exp.get(name)
            if e is None:
                problems.append("segment %s is not produced by the statements" % name)
            elif e["empty"]:
                if data != "":
                    problems.append("segment %s holds %d byte(s) although no statement emits into it" % (name, len(data) // 2))
            elif (int(e["start"]), int(e["end"]), e["data"]) != (start, end, data):
                i = next((k for k in range(0, min(len(data), len(e["data"])), 2) if data[k:k + 2] != e["data"][k:k + 2]), None)
                at = "" if i is None or int(e["start"]) != start else " (first difference at $%04X: image %s, statements under the final symbols give %s)" % (
                    start + i // 2, data[i:i + 8], e["data"][i:i + 8])
                problems.append("segment %s: image $%04X..$%04X differs from the bytes of its statements under the final symbol values $%04X..$%04X%s"
                                % (name, start, end, int(e["start"]), int(e["end"]), at))
        for b in rl["bad"][:4]:
            if b["k"] == "symbol":
                problems.append("symbol %s has final value %s but its definition site gives %s" % (b["path"], b["actual"], b["expected"]))
            elif b["k"] == "unresolved":
                problems.append("an expression at offset %s has no value under the final symbols" % b["span"])
            else:
                problems.append("re-derivation: %s" % json.dumps(b))
        if problems:
            fails += 1
            chk.oracle_failure(None, "%s: assembly succeeded but %s" % (what, "; ".join(problems[:3])), dict(replay, problems=problems[:8]))
    # segments.<name>.start / .end are the final ranges
    symv = {p_: v_ for p_, t_, v_ in r["symbols"]}
    stale_seg = []
    for name, start, end, data in impl_segments(r):
        for suffix, want in (("start", start), ("end", end)):
            got = symv.get("segments.%s.%s" % (name, suffix))
            if got is not None and got != want:
                stale_seg.append("segments.%s.%s = %s but the segment's final range is $%04X..$%04X" % (name, suffix, got, start, end))
    if stale_seg:
        fails += 1
        chk.oracle_failure(None, "%s: assembly succeeded but %s" % (what, "; ".join(stale_seg[:3])), replay)
    # VICE symbols list exactly the labels with the final values
    labels = sorted("al C:%X .%s" % (v, p) for p, t, v in r["symbols"] if t == "label" and isinstance(v, int) and v >= 0)
    vice = sorted(l for l in r.get("vice", "").splitlines() if l.strip())
    neg = [p for p, t, v in r["symbols"] if t == "label" and isinstance(v, int) and v < 0]
    if not neg and labels != vice:
        fails += 1
        chk.oracle_failure(None, "%s: the VICE symbol list differs from the label values: only in file %s, only in table %s" % (
            what, sorted(set(vice) - set(labels))[:4], sorted(set(labels) - set(vice))[:4]), replay)
    return fails, rl


def operand_stats(ast, rl):
    """how many symbol-valued AbsoluteOrZp operands ended up zero-page / absolute sized"""
    lens = {}
    for sp, addr, ln in rl.get("statements", []):
        lens[(int(sp[0]), int(sp[1]))] = int(ln)
    zp = ab = 0

    def has_id(e):
        if e.get("e") == "bin":
            return has_id(e["l"]) or has_id(e["r"])
        f = e.get("f", {})
        if f.get("k") == "id":
            return True
        if f.get("k") == "parens":
            return has_id(f["inner"])
        return False

    def walk(toks):
        nonlocal zp, ab
        for t in toks:
            k = t.get("t")
            if k == "instr" and t.get("operand") and t["operand"]["am"] == "AbsoluteOrZp" and has_id(t["operand"]["expr"]):
                lo = min(t["mnl"]["span"][0], t["operand"]["expr"]["span"][0])
                hi = max(t["mnl"]["span"][1], t["operand"]["expr"]["span"][1])
                ln = lens.get((lo, hi))
                if ln == 2:
                    zp += 1
                elif ln == 3:
                    ab += 1
            for key in ("block", "if", "else"):
                b = t.get(key)
                if isinstance(b, dict) and "inner" in b:
                    walk(b["inner"])
    for f in ast.get("files", {}).values():
        walk(f["tokens"])
    return zp, ab


def corpus_cases():
    out = []
    d = os.path.join(common.ROOT, "corpus", "C02")
    for p in sorted(glob.glob(os.path.join(d, "*.json"))):
        j = json.load(open(p))
        out.append((os.path.basename(p), j["files"], j.get("opts", {}), j.get("expect")))
    for p in sorted(glob.glob(os.path.join(d, "*.asm"))):
        out.append((os.path.basename(p), {"main.asm": open(p).read()}, {}, None))
    return out


def run(chk):
    rng = random.Random(chk.seed)
    common.translate_for(chk, ["codegen"])
    chk.proof = common.prove("C02")
    probe = Proc([common.build_probe("harness_c02", "c02probe")])
    model = Proc([common.build_model("asm")])
    thorough = chk.tier == "thorough"
    n = 3000 if thorough else 1000
    dist = {"programs": 0, "ok": 0, "failed": 0, "model_aborted": {}, "passes": {}, "kinds": {}, "segments": {}, "zp_sized_symbol_operands": 0,
            "abs_sized_symbol_operands": 0, "programs_with_both_sizes": 0, "outside_guard_var_or_import": 0, "statements": 0,
            "max_nesting": 0}
    seen = set()

    def one(name, files, opts, expect=None, count=True):
        r = run_case(probe, model, files, opts)
        if r.get("parse_errors"):
            return
        m, st = correspondence(chk, model, r, files, opts, name)
        if st.startswith("aborted"):
            dist["model_aborted"][st] = dist["model_aborted"].get(st, 0) + 1
        if not r.get("ok") or "ast" not in r:
            dist["failed"] += 1
            if expect and expect.get("data") is not None:
                chk.oracle_failure(None, "%s: regression witness no longer assembles: %s (%s)" % (
                    name, [e["msg"] for e in (r.get("errors") or [])][:3] or r.get("panic"), expect.get("why", "")), {"files": files, "opts": opts})
            if count:
                chk.count(1, 0)
            return
        dist["ok"] += 1
        fails, rl = oracle(chk, model, r, files, opts, name)
        if expect:
            got = "".join(s["data"] for s in r["segments"])
            if expect.get("data") is not None and got != expect["data"]:
                chk.oracle_failure(None, "%s: regression witness assembles to %s, the fixed point is %s (%s)" % (name, got, expect["data"], expect.get("why", "")),
                                   {"files": files, "opts": opts})
        # (c) every label of the final table was written by the last pass (pass stamps: from the model, which agrees with the
        #     implementation on this program's symbols)
        if m.get("status") == "done" and sym_key(r["symbols"]) == sym_key(m["symbols"]):
            stale = [p_ for p_, t_ in m.get("stale", []) if t_ == "label"]
            if stale:
                dist["stale_labels"] = dist.get("stale_labels", 0) + 1
                chk.oracle_failure("Known_stale_symbol_survives", "%s: assembly succeeded but the symbol table (and the VICE file) keeps label(s) %s that the last "
                                   "pass never defined: their values come from an earlier pass" % (name, stale[:4]), {"files": files, "opts": opts})
        p = r.get("passes", 0)
        dist["passes"][str(p)] = dist["passes"].get(str(p), 0) + 1
        nseg = len(r["segments"])
        dist["segments"][str(nseg)] = dist["segments"].get(str(nseg), 0) + 1
        zp, ab = operand_stats(r["ast"], rl) if rl.get("status") == "ok" else (0, 0)
        dist["zp_sized_symbol_operands"] += zp
        dist["abs_sized_symbol_operands"] += ab
        if zp and ab:
            dist["programs_with_both_sizes"] += 1
        if m.get("var_changes"):
            dist["outside_guard_var_or_import"] += 1
        default_only = nseg == 1 and r["segments"][0]["name"] == "default"
        # non-trivial: a later emitting pass had to correct addresses (a forward reference changed the size of an instruction)
        nontrivial = p >= (4 if default_only else 3)
        if count:
            chk.count(1, 1 if nontrivial else 0)
        if nontrivial:
            chk.sample({"program": files["main.asm"][:600], "passes": p, "bytes": sum(len(s["data"]) // 2 for s in r["segments"])}, limit=4)

    for name, files, opts, expect in corpus_cases():
        one("corpus/" + name, files, opts, expect)

    def generated(count):
        for _ in range(count):
            src, files, opts, st = asmgen.generate(rng)
            if src in seen:
                continue
            seen.add(src)
            f = {"main.asm": src}
            f.update(files)
            dist["programs"] += 1
            dist["statements"] += src.count("\n")
            dist["max_nesting"] = max(dist["max_nesting"], st["max_depth"])
            for k, v in st["kinds"].items():
                dist["kinds"][k] = dist["kinds"].get(k, 0) + v
            one("generated#%d" % dist["programs"], f, opts)

    generated(n)
    broken = bool(chk.tie_breaks) or (chk.proof and (chk.proof["discharged"] < chk.proof["obligations"] or chk.proof["rc"] != 0))
    if broken and not chk.violations:
        common.log("C02: proof or tie broken; widening the search for a failing input")
        generated(3000 if not thorough else 6000)
    probe.stop()
    model.stop()
    chk.cov["rule"] = ("corpus/C02 first, then seeded grammar-based programs (checks/asmgen.py): <= 50 statements, 0..4 segments with/without pc (one starting "
                       "shortly below $0100), nesting <= 4, labels with/without blocks, braces, super./dotted/cross-segment references forwards and backwards, "
                       "* =, .align, const/var, macros, loops, if/else, imports. Each is assembled by the real codegen (c02probe, hook H1: pass count, one extra pass) "
                       "and by the extracted model on the real parse tree (segments, symbols, pass count, diagnostics compared); the oracle checks the extra pass "
                       "changes nothing, re-derives every statement under the implementation's final symbols (spec/Relayout.v) and compares VICE symbols. "
                       "distinct = distinct source text; non-trivial = assembly succeeds and needed a correcting pass (>= 4 passes on the default segment, >= 3 with "
                       "explicit segments), i.e. at least one forward reference changed an instruction's size and with it later addresses")
    chk.extra["distribution"] = dist
    chk.assumptions = [
        "C02_fixed_point is guarded by no_silent_change (no .var changed value and no import re-linked symbols in the last pass); programs outside the guard "
        "are still checked by the oracles (counted as outside_guard_var_or_import)",
        "the statement-level coupling 'bytes = encode(value)' is by construction of the model's instruction/data arms (Encode.v/Expr.v, proved in C01/C03) and "
        "is checked on the implementation by the re-derivation oracle",
        "not modelled: banks, .file, text encodings other than ascii, active tests (assert/trace), greedy analysis; such programs are skipped by the correspondence",
    ]
    return chk.finish(extra_trusted=[
        "hook H1 (cfg mos_verif, commit 8c37c30): pass observer and verif_extra_pass, used through harness_c02/c02probe",
        "translator t_codegen (pass-loop exit rule, label/scope/loop/macro/align/data arms, Segment::emit bounds) -> Gen/CodegenConsts.v",
        "extract/driver_asm.ml (AST dump -> model tokens), spec/Relayout.v extracted as the re-derivation oracle",
    ])


def replay(chk, path):
    obj = json.load(open(path))
    rp = obj.get("replay", obj)
    files, opts = rp.get("files"), rp.get("opts", {})
    if not files:
        print(json.dumps(obj, indent=1)[:3000])
        return 0
    probe = Proc([common.build_probe("harness_c02", "c02probe")])
    model = Proc([common.build_model("asm")])
    r = run_case(probe, model, files, opts)
    out = {"program": files, "opts": opts, "ok": r.get("ok"), "passes": r.get("passes"),
           "segments": [(a, "$%04X" % b, "$%04X" % c, d[:200]) for a, b, c, d in impl_segments(r)],
           "errors": [e["msg"] for e in r.get("errors", [])], "extra_pass": {k: (r.get("extra_pass") or {}).get(k) for k in ("changed_symbols", "errors", "undefined")}}
    if r.get("ok"):
        rl = model.call({"cmd": "relayout", "ast": r["ast"], "symbols": r["symbols"], "segments": r["segments"]}, timeout=120)
        out["statements_under_final_symbols"] = [(s["name"], s.get("start"), s.get("end"), (s.get("data") or "")[:200]) for s in rl.get("segments", [])]
        out["checks_failed"] = rl.get("bad", [])[:10]
    print(json.dumps(out, indent=1))
    probe.stop()
    model.stop()
    return 0

"""Program generator for C11 (and the valid-program part of C04): programs for which the generator itself knows,
without any assembler, every emission (statement span, segment, emit/target address, bytes, scope path) of the last pass.

A program is a small AST that is rendered to text (one or more files) while the spans of the emitting constructs are
recorded, and then interpreted (`Exec`) to produce
  * ops:        the operation sequence of one pass for the Coq emission model (model/Emit.v)
  * emissions:  (file, lo, hi) of the emitting construct, the same for listing mode (outermost macro invocation),
                segment, emit pc, target pc, bytes
All operand sizes are independent of symbol values (absolute operands are >= $0100, branches are 2 bytes), so every pass
emits the same sequence and label values are known after one interpretation."""

IMPLIED = {"nop": 0xEA, "inx": 0xE8, "iny": 0xC8, "dex": 0xCA, "dey": 0x88, "clc": 0x18, "sec": 0x38, "tax": 0xAA,
           "txa": 0x8A, "pha": 0x48, "pla": 0x68}
IMM = {"lda": 0xA9, "ldx": 0xA2, "ldy": 0xA0, "cmp": 0xC9, "adc": 0x69, "and": 0x29, "ora": 0x09, "eor": 0x49}
ABS = {"lda": 0xAD, "sta": 0x8D, "jmp": 0x4C, "jsr": 0x20, "ldx": 0xAE, "stx": 0x8E, "inc": 0xEE, "dec": 0xCE}
BRANCH = {"bne": 0xD0, "beq": 0xF0, "bcc": 0x90, "bcs": 0xB0, "bpl": 0x10, "bmi": 0x30}


class Writer:
    """text of one file; offsets are UTF-8 byte offsets"""

    def __init__(self, name):
        self.name = name
        self.buf = b""

    def put(self, s):
        lo = len(self.buf)
        self.buf += s.encode("utf-8")
        return (self.name, lo, len(self.buf))

    def text(self):
        return self.buf.decode("utf-8")


class Gen:
    def __init__(self, rng, size=None, features=None):
        self.rng = rng
        self.files = {}
        self.order = []
        self.nid = 0
        self.labels = []          # label names defined so far (top level only)
        self.label_count = 0
        self.macros = []          # (name, has_arg, body)
        self.libs = []            # (filename, body)
        self.segdefs = []         # (name, start, pc or None)
        self.size = size or rng.choice([3, 6, 10, 16])
        self.cids = {}
        self.keep = []
        self.slots = []           # (container id, file, byte offset of a line start, depth): a statement line may be inserted here
        self.feat = features or {}
        self.budget = 0

    def fresh(self):
        self.nid += 1
        return self.nid

    def cid(self, items):
        """a deterministic id of a statement list (id() values differ from run to run)"""
        k = id(items)
        if k not in self.cids:
            self.cids[k] = len(self.cids)
            self.keep.append(items)
        return self.cids[k]

    # ------------------------------------------------------------------ AST construction (no text yet)
    def expr(self, env):
        r = self.rng
        c = r.random()
        if env.get("arg") and c < 0.35:
            return {"e": "arg"}
        if env.get("const") and c < 0.5:
            return {"e": "const"}
        if env.get("top") and c < 0.08:
            return {"e": "cmt", "a": r.randrange(0, 100), "b": r.randrange(0, 100), "lines": r.choice([1, 2, 3])}
        return {"e": "lit", "v": r.randrange(0, 256), "hex": r.random() < 0.4}

    def stmt(self, env, depth):
        r = self.rng
        self.budget -= 1
        kinds = ["byte", "byte", "word", "text", "implied", "implied", "imm", "abs"]
        if depth < 3 and self.budget > 0:
            kinds += ["block", "loop", "if"]
            if env.get("top"):
                kinds += ["lblock"]
        if env.get("top"):
            kinds += ["label", "abslabel", "wordlabel", "align"] + ([] if self.feat.get("no_branch") else ["branch"])
            if env.get("setpc_ok"):
                kinds += ["setpc"]
        if self.macros and not env.get("in_lib") and env.get("macro_level", 99) > 0:
            kinds += ["call", "call"]
        if env.get("top") and self.libs:
            kinds += ["import"]
        k = r.choice(kinds)
        n = {"k": k, "id": self.fresh(), "inline": False}
        if k in ("byte", "word"):
            n["vals"] = [self.expr(env) for _ in range(r.choice([1, 1, 2, 3, 5, 9, 18]))]
            if k == "word":
                n["vals"] = n["vals"][:4]
        elif k == "text":
            n["s"] = "".join(r.choice("abcxyz 019") for _ in range(r.choice([0, 1, 3, 9, 20])))
        elif k == "implied":
            n["m"] = r.choice(sorted(IMPLIED))
        elif k == "imm":
            n["m"] = r.choice(sorted(IMM))
            n["v"] = self.expr(dict(env, top=False))
        elif k == "abs":
            n["m"] = r.choice(sorted(ABS))
            n["addr"] = r.randrange(0x100, 0x10000)
        elif k == "label":
            n["name"] = self.new_label()
            n["then"] = self.stmt_simple(env)
        elif k == "lblock":
            n["name"] = self.new_label()
            n["items"] = self.items(dict(env, top=False), depth + 1, r.randrange(0, 3))
            n["inline"] = r.random() < 0.3
        elif k in ("branch", "abslabel", "wordlabel"):
            if not self.labels:
                return self.stmt_simple(env)
            n["label"] = r.choice(self.labels[-4:]) if k == "branch" else r.choice(self.labels + ["@fwd"])
            n["m"] = r.choice(sorted(BRANCH)) if k == "branch" else r.choice(["jmp", "jsr", "lda", "sta"])
        elif k == "align":
            n["n"] = r.choice([2, 4, 8, 16])
        elif k == "setpc":
            n["skip"] = r.choice([0, 1, 5, 32])
        elif k == "block":
            n["items"] = self.items(dict(env, top=False), depth + 1, r.randrange(0, 3))
            n["inline"] = r.random() < 0.4
        elif k == "loop":
            n["count"] = r.choice([0, 1, 2, 3])
            n["items"] = self.items(dict(env, top=False), depth + 1, r.randrange(1, 3))
            n["inline"] = r.random() < 0.3
        elif k == "if":
            n["cond"] = r.random() < 0.6
            n["then"] = self.items(dict(env, top=False), depth + 1, r.randrange(0, 3))
            n["else"] = self.items(dict(env, top=False), depth + 1, r.randrange(0, 2)) if r.random() < 0.5 else None
        elif k == "call":
            lvl = env.get("macro_level", 99)
            cands = [i for i in range(len(self.macros)) if i < lvl]
            if not cands:
                return self.stmt_simple(env)
            i = r.choice(cands)
            n["macro"] = i
            n["arg"] = r.randrange(0, 256) if self.macros[i][1] else None
        elif k == "import":
            n["lib"] = r.randrange(len(self.libs))
            n["param"] = r.randrange(0, 256)
        return n

    def stmt_simple(self, env):
        r = self.rng
        k = r.choice(["implied", "imm", "byte"])
        n = {"k": k, "id": self.fresh(), "inline": False}
        if k == "implied":
            n["m"] = r.choice(sorted(IMPLIED))
        elif k == "imm":
            n["m"] = r.choice(sorted(IMM))
            n["v"] = {"e": "lit", "v": r.randrange(0, 256), "hex": False}
        else:
            n["vals"] = [{"e": "lit", "v": r.randrange(0, 256), "hex": False}]
        return n

    def new_label(self):
        self.label_count += 1
        name = "l%d" % self.label_count
        self.labels.append(name)
        return name

    def items(self, env, depth, count):
        return [self.stmt(env, depth) for _ in range(count)]

    def program(self):
        r = self.rng
        self.budget = self.size * 3
        # libraries (imported files): emit with a parameter constant V
        for i in range(r.choice([0, 0, 1, 2])):
            body = self.items({"const": True, "in_lib": True}, 1, r.randrange(1, 4))
            self.libs.append(("lib%d.asm" % i, body))
        # macros: macro i may call macros j < i
        for i in range(r.choice([0, 1, 2, 3])):
            has_arg = r.random() < 0.6
            body = self.items({"arg": has_arg, "macro_level": i}, 1, r.randrange(1, 4))
            self.macros.append(("m%d" % i, has_arg, body))
        # a macro whose body fails in an intermediate pass only (see below)
        transient = bool(self.feat.get("transient")) and not self.feat.get("no_branch")
        if transient:
            self.macros.append(("tm", False, [{"k": "mbranch", "id": self.fresh(), "inline": False, "m": r.choice(sorted(BRANCH)),
                                               "label": "tmdone", "n": r.randrange(0, 21)}]))
        # segments
        nseg = r.choice([0, 0, 1, 2, 3])
        layout = r.choice(["disjoint", "overlap", "reloc_same_target"])
        for j in range(nseg):
            if layout == "disjoint":
                start = 0x1000 + 0x1000 * j + r.randrange(0, 64)
            elif layout == "overlap":
                start = 0x1000 + r.randrange(0, 8)
            else:
                start = 0x1000 + 0x800 * j
            pc = None
            if r.random() < 0.45:
                pc = r.choice([0x8000, 0x8000, 0xC000 + 16 * j, start + 3, 0x0200]) if layout != "reloc_same_target" else 0x8000
            self.segdefs.append(("s%d" % j, start, pc))
        top = []
        env = {"top": True, "setpc_ok": True}
        for _ in range(self.size):
            if self.segdefs and r.random() < 0.5:
                name = r.choice(self.segdefs)[0]
                top.append({"k": "segment", "id": self.fresh(), "name": name, "inline": r.random() < 0.3,
                            "items": self.items(env, 1, r.randrange(1, 4))})
            else:
                top.append(self.stmt(env, 0))
        if transient:
            # 50-60 forward references (`jmp fwd` emits nothing in pass 1), then the invocation: in pass 2 the branch inside
            # the macro body sits 150+ bytes higher but still sees the label value of pass 1 -> "branch too far" in pass 2
            # only; pass 3 is clean.  The final pass emits what the generator says; only intermediate passes differ.
            pre = [{"k": "abslabel", "id": self.fresh(), "inline": False, "label": "@fwd", "m": "jmp"} for _ in range(r.randrange(50, 61))]
            pre.append({"k": "call", "id": self.fresh(), "inline": False, "macro": len(self.macros) - 1, "arg": None})
            cut = r.choice([0, 0, len(top)]) if not self.segdefs else 0
            top = top[:cut] + pre + top[cut:] if cut == 0 else pre + top
        self.top = top
        # placement of macro definitions: before or after their use (definitions are found in the first pass anyway)
        self.macros_first = True if transient else r.random() < 0.7
        return self

    # ------------------------------------------------------------------ rendering
    def render(self):
        r = self.rng
        w = Writer("main.asm")
        self.w = {"main.asm": w}
        self.crlf = False
        for name, start, pc in self.segdefs:
            w.put('.define segment { name = "%s" start = $%04x%s }\n' % (name, start, "" if pc is None else " pc = $%04x" % pc))
        if self.macros_first:
            self.render_macros(w)
        for n in self.top:
            self.slots.append((self.cid(self.top), w.name, len(w.buf), 0))
            self.render_stmt(w, n, 0)
        self.slots.append((self.cid(self.top), w.name, len(w.buf), 0))
        if not self.macros_first:
            self.render_macros(w)
        if r.random() < 0.3:
            w.buf = w.buf.rstrip(b"\n")        # no final newline
        for fname, body in self.libs:
            lw = Writer(fname)
            self.w[fname] = lw
            if r.random() < 0.5:
                lw.put("// library\n")
            for n in body:
                self.slots.append((self.cid(body), lw.name, len(lw.buf), 0))
                self.render_stmt(lw, n, 0)
            self.slots.append((self.cid(body), lw.name, len(lw.buf), 0))
        self.files = {k: v.text() for k, v in self.w.items()}
        return self.files

    def render_macros(self, w):
        for name, has_arg, body in self.macros:
            w.put(".macro %s(%s) {\n" % (name, "x" if has_arg else ""))
            for n in body:
                self.slots.append((self.cid(body), w.name, len(w.buf), 1))
                self.render_stmt(w, n, 1)
            self.slots.append((self.cid(body), w.name, len(w.buf), 1))
            w.put("}\n")

    def render_expr(self, w, e):
        if e["e"] == "arg":
            e["span"] = w.put("x")
        elif e["e"] == "const":
            e["span"] = w.put("V")
        elif e["e"] == "lit":
            e["span"] = w.put(("$%02x" % e["v"]) if e["hex"] else str(e["v"]))
        else:
            lo = w.put("%d /* c" % e["a"])
            for _ in range(e["lines"]):
                w.put("\n   more")
            hi = w.put(" */ + %d" % e["b"])
            e["span"] = (lo[0], lo[1], hi[2])

    def eol(self, w, inline):
        if inline:
            w.put(" ")
        else:
            c = self.rng.random()
            if c < 0.1:
                w.put("  // café ☃")
            elif c < 0.15:
                w.put(" /* c */")
            w.put("\n")
            if self.rng.random() < 0.08:
                w.put("\n")

    def render_block(self, w, items, depth, inline, head):
        w.put(head + " {")
        if inline:
            w.put(" ")
        else:
            w.put("\n")
        for n in items:
            if not inline:
                self.slots.append((self.cid(items), w.name, len(w.buf), depth + 1))
            self.render_stmt(w, n, depth + 1, inline)
        if not inline:
            self.slots.append((self.cid(items), w.name, len(w.buf), depth + 1))
            w.put("  " * depth)
        w.put("}")

    def render_stmt(self, w, n, depth, inline=False):
        k = n["k"]
        if not inline:
            w.put("  " * depth)
        if k in ("byte", "word"):
            w.put(".%s " % k)
            for i, e in enumerate(n["vals"]):
                if i:
                    w.put(", " if self.rng.random() < 0.8 else ",")
                self.render_expr(w, e)
            if any(e["e"] == "cmt" for e in n["vals"]):
                inline = False
        elif k == "text":
            w.put(".text ")
            n["span"] = w.put('"%s"' % n["s"])
        elif k == "implied":
            n["span"] = w.put(n["m"])
        elif k == "imm":
            lo = w.put(n["m"] + " #")
            self.render_expr(w, n["v"])
            n["span"] = (lo[0], lo[1], n["v"]["span"][2])
        elif k == "abs":
            n["span"] = w.put("%s $%04x" % (n["m"], n["addr"]))
        elif k == "label":
            w.put(n["name"] + ": ")
            self.render_stmt(w, n["then"], depth, True)
            w.buf = w.buf[:-1] if w.buf.endswith(b" ") else w.buf
        elif k in ("branch", "abslabel"):
            n["span"] = w.put("%s %s" % (n["m"], n["label"].replace("@", "")))
        elif k == "wordlabel":
            w.put(".word ")
            n["span"] = w.put(n["label"].replace("@", ""))
        elif k == "mbranch":
            # a branch over a few bytes to a label local to the macro body (three statements)
            n["span"] = w.put("%s %s" % (n["m"], n["label"]))
            w.put("\n" + "  " * depth + ".text ")
            n["span_text"] = w.put('"%s"' % ("t" * n["n"]))
            w.put("\n" + "  " * depth + n["label"] + ": ")
            n["span_nop"] = w.put("nop")
        elif k == "align":
            w.put(".align ")
            n["span"] = w.put(str(n["n"]))
        elif k == "setpc":
            n["text_at"] = len(w.buf)
            w.put("* = $XXXX")                       # patched once addresses are known
        elif k == "block":
            self.render_block(w, n["items"], depth, n["inline"], "")
            w.buf = w.buf  # head is empty: "{"
        elif k == "lblock":
            self.render_block(w, n["items"], depth, n["inline"], n["name"] + ":")
        elif k == "loop":
            self.render_block(w, n["items"], depth, n["inline"], ".loop %d" % n["count"])
        elif k == "segment":
            self.render_block(w, n["items"], depth, n["inline"], '.segment "%s"' % n["name"])
        elif k == "if":
            self.render_block(w, n["then"], depth, False, ".if %d" % (1 if n["cond"] else 0))
            if n["else"] is not None:
                w.put(" else")
                self.render_block(w, n["else"], depth, False, "")
        elif k == "call":
            n["span"] = w.put(self.macros[n["macro"]][0])
            w.put("(%s)" % ("" if n["arg"] is None else str(n["arg"])))
        elif k == "import":
            n["alias"] = "i%d" % n["id"]
            w.put('.import * as %s from "%s" { .const V = %d }' % (n["alias"], self.libs[n["lib"]][0], n["param"]))
        self.eol(w, inline)


class Exec:
    """interpret the rendered AST: one pass of emission"""

    def __init__(self, g, move, labels=None, default_pc=0x2000):
        self.g = g
        self.move = move
        self.labels_in = labels or {}
        self.labels = {}
        self.ops = []
        self.ems = []
        self.scope_ids = {(): 0}
        self.path = ()
        self.macro_n = 0
        self.call_stack = []      # name spans of the active invocations, outermost first
        self.bad_branches = []
        self.branch_slack = 0     # > 0: branches closer than this to the limits of their range count as bad (see build)
        self.executed = set()     # ids of the statement lists that were executed at least once
        self.setpcs = {}
        if g.segdefs:
            self.segs = {n: {"pc": s, "toff": (0 if p is None else p - s), "max": s, "initial_pc": s,
                             "target": s if p is None else p} for n, s, p in g.segdefs}
            self.segorder = [n for n, _, _ in g.segdefs]
            self.cur = g.segdefs[0][0]
        else:
            self.segs = {"default": {"pc": default_pc, "toff": 0, "max": default_pc, "initial_pc": default_pc, "target": default_pc}}
            self.segorder = ["default"]
            self.cur = "default"

    def scope_id(self, path):
        if path not in self.scope_ids:
            self.scope_ids[path] = len(self.scope_ids)
        return self.scope_ids[path]

    def tpc(self):
        s = self.segs[self.cur]
        return s["pc"] + s["toff"]

    def emit(self, span, data):
        s = self.segs[self.cur]
        attr = self.call_stack[0] if (self.move and self.call_stack) else span
        self.ops.append({"op": "emit", "span": span, "bytes": list(data)})
        self.ems.append({"span": span, "attr": attr, "seg": self.cur, "epc": s["pc"], "tpc": s["pc"] + s["toff"],
                         "bytes": list(data), "path": self.path})
        s["pc"] += len(data)
        s["max"] = max(s["max"], s["pc"])

    def with_scope(self, key, f):
        old = self.path
        self.path = old + (key,)
        self.ops.append({"op": "scope", "scope": self.scope_id(self.path)})
        f()
        self.path = old
        self.ops.append({"op": "scope", "scope": self.scope_id(old)})

    def val(self, e, env):
        if e["e"] == "arg":
            return env["arg"]
        if e["e"] == "const":
            return env["const"]
        if e["e"] == "lit":
            return e["v"]
        return e["a"] + e["b"]

    def label_value(self, name):
        if name == "@fwd":
            return self.labels_in.get("fwd", 0x1234)
        return self.labels_in.get(name, 0x1234)

    def run_items(self, items, env):
        self.executed.add(self.g.cid(items))
        for n in items:
            self.run(n, env)

    def run(self, n, env):
        k = n["k"]
        if k == "byte":
            for e in n["vals"]:
                self.emit(e["span"], [self.val(e, env) & 0xFF])
        elif k == "word":
            for e in n["vals"]:
                v = self.val(e, env) & 0xFFFF
                self.emit(e["span"], [v & 0xFF, v >> 8])
        elif k == "text":
            self.emit(n["span"], [ord(c) for c in n["s"]])
        elif k == "implied":
            self.emit(n["span"], [IMPLIED[n["m"]]])
        elif k == "imm":
            self.emit(n["span"], [IMM[n["m"]], self.val(n["v"], env) & 0xFF])
        elif k == "abs":
            self.emit(n["span"], [ABS[n["m"]], n["addr"] & 0xFF, n["addr"] >> 8])
        elif k == "label":
            self.labels[n["name"]] = self.tpc()
            self.run(n["then"], env)
        elif k == "lblock":
            self.labels[n["name"]] = self.tpc()
            self.with_scope(("lb", n["name"]), lambda: self.run_items(n["items"], env))
        elif k == "branch":
            target = self.label_value(n["label"])
            off = target - (self.tpc() + 2)
            if not (-128 + self.branch_slack <= off <= 127 - self.branch_slack):
                self.bad_branches.append(n)
            self.emit(n["span"], [BRANCH[n["m"]], off & 0xFF])
        elif k == "mbranch":
            self.emit(n["span"], [BRANCH[n["m"]], n["n"]])
            self.emit(n["span_text"], [ord("t")] * n["n"])
            self.emit(n["span_nop"], [0xEA])
        elif k == "abslabel":
            v = self.label_value(n["label"])
            self.emit(n["span"], [ABS[n["m"]], v & 0xFF, (v >> 8) & 0xFF])
        elif k == "wordlabel":
            v = self.label_value(n["label"])
            self.emit(n["span"], [v & 0xFF, (v >> 8) & 0xFF])
        elif k == "align":
            pc = self.tpc()
            self.emit(n["span"], [0] * (n["n"] - (pc % n["n"])))
        elif k == "setpc":
            s = self.segs[self.cur]
            addr = min(s["max"] + n["skip"], 0xFFF0)
            self.setpcs[n["id"]] = addr
            s["pc"] = addr
            self.ops.append({"op": "setpc", "pc": addr})
        elif k == "block":
            self.with_scope(("blk", n["id"]), lambda: self.run_items(n["items"], env))
        elif k == "loop":
            for it in range(n["count"]):          # every iteration has a scope of its own ("<loop scope>_<index>")
                self.with_scope(("loop", n["id"], it), lambda: self.run_items(n["items"], env))
        elif k == "if":
            if n["cond"]:
                self.run_items(n["then"], env)
            elif n["else"] is not None:
                self.run_items(n["else"], env)
        elif k == "segment":
            old = self.cur
            self.cur = n["name"]
            self.ops.append({"op": "segment", "name": n["name"]})
            self.run_items(n["items"], env)
            self.cur = old
            self.ops.append({"op": "segment", "name": old})
        elif k == "call":
            name, has_arg, body = self.g.macros[n["macro"]]
            old = self.path
            self.path = old + (("macro", self.macro_n),)
            self.macro_n += 1
            self.ops.append({"op": "macro_begin", "scope": self.scope_id(self.path), "span": n["span"]})
            self.call_stack.append(n["span"])
            self.run_items(body, dict(env, arg=n["arg"]))
            self.call_stack.pop()
            self.path = old
            self.ops.append({"op": "macro_end"})
        elif k == "import":
            fname, body = self.g.libs[n["lib"]]
            self.with_scope(("imp", n["id"]), lambda: self.run_items(body, dict(env, const=n["param"])))


def build(rng, size=None, branch_slack=0, no_branch=False, transient=False):
    """-> (Gen with .files, label values).  branch_slack: every branch keeps that many bytes of slack to the limits of its
    range (so that a few inserted bytes cannot push it out of range); no_branch: the program has no branch instructions."""
    for _ in range(200):
        g = Gen(rng, size, {"no_branch": no_branch, "transient": transient}).program()
        g.render()
        # pass 1: label values and set-pc addresses (independent of the macro attribution mode)
        e1 = Exec(g, False)
        e1.run_items(g.top, {})
        labels = dict(e1.labels)
        labels["fwd"] = e1.tpc()
        # a forward target label at the very end of the main file
        main = g.w["main.asm"]
        if any(n_uses_fwd(n) for n in walk(g.top)):
            if not main.buf.endswith(b"\n"):
                main.put("\n")
            main.put("fwd: nop\n")
            g.top.append({"k": "label", "id": g.fresh(), "name": "fwd", "inline": False,
                          "then": {"k": "implied", "id": g.fresh(), "m": "nop", "inline": False,
                                   "span": ("main.asm", len(main.buf) - 4, len(main.buf) - 1)}})
        # patch `* = $XXXX`
        buf = main.buf
        for n in walk(g.top):
            if n["k"] == "setpc":
                at = n["text_at"]
                buf = buf[:at] + ("* = $%04x" % e1.setpcs[n["id"]]).encode() + buf[at + 9:]
        main.buf = buf
        e2 = Exec(g, False, labels)
        e2.branch_slack = branch_slack
        e2.run_items(g.top, {})
        if e2.bad_branches or any(s["max"] > 0xFFF0 for s in e2.segs.values()):
            continue                      # a branch out of range or a segment near the end of memory: another program
        g.files = {k: v.text() for k, v in g.w.items()}
        return g, labels
    raise RuntimeError("generator could not produce a program")


def n_uses_fwd(n):
    return n.get("label") == "@fwd"


def walk(items):
    for n in items:
        yield n
        for key in ("items", "then", "else"):
            v = n.get(key)
            if isinstance(v, list):
                yield from walk(v)
            elif isinstance(v, dict):
                yield from walk([v])

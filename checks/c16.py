"""C16 -- go-to-definition and find-references agree with the assembler's scoping."""
import json
import os
import random
import sys

import common
from common import Proc, log

sys.path.insert(0, os.path.join(common.ROOT, "gen"))
sys.path.insert(0, os.path.join(common.ROOT, "drivers"))
import navgen  # noqa: E402
import lsp_nav  # noqa: E402

CORPUS = os.path.join(common.ROOT, "corpus", "C16")


# ----------------------------------------------------------------------------- known-finding classes (decidable)
def known_class(p, o):
    """no known finding is left for C16 (Known_greedy_untaken_definition was repaired in 41281c3)"""
    return None


# ----------------------------------------------------------------------------- oracle on the real server
def occurrences_in(p, rng_):
    f, l0, c0, l1, c1 = rng_
    return [o for o in p.occs if o.file == f and l0 == l1 == o.line and c0 <= o.col and o.col + len(o.text) <= c1]


def site_of(d):
    f, l, c0, c1 = d.site()
    return (f, l, c0, l, c1)


def expected_references(p, T):
    """occurrences that mean definition T (decided ones), and those that might (undecided)"""
    sure, maybe = set(), set()
    for o in p.occs:
        if o.truth is T:
            sure.add(o.key())
        elif o.truth is None or o.truth == "ambiguous":
            maybe.add(o.key())
    return sure, maybe


def check_project(chk, p, sess, stats, replay_base):
    """every identifier occurrence: definition, references (with / without declaration), highlights"""
    bad = 0
    goto_cache = {}
    p.server_answers = {}
    for o in p.occs:
        mid = o.col + (len(o.text) // 2 if len(o.text) > 1 else 0)
        got_def = sess.definition(o.file, o.line, mid)
        goto_cache[o.key()] = got_def
        refs_t = sess.references(o.file, o.line, mid, True)
        refs_f = sess.references(o.file, o.line, mid, False)
        hl = sess.highlight(o.file, o.line, mid)
        p.server_answers[(o.file, o.line, mid)] = (got_def, refs_t, refs_f, hl)
        stats["occurrences"] += 1
        stats["role_" + o.role] = stats.get("role_" + o.role, 0) + 1
        if o.path and len(o.path) > 1:
            stats["dotted_segments"] += 1
        T = o.truth
        klass = known_class(p, o)
        rep = dict(replay_base, occurrence=[o.file, o.line, o.col, o.text, o.role])

        def fail(what, **kw):
            nonlocal bad
            bad += 1
            chk.oracle_failure(klass, "%s at %s:%d:%d `%s` (%s): %s" % (kw.pop("item"), o.file, o.line, o.col, o.text, o.role, what),
                               dict(rep, **kw))
        # --- go-to-definition = the definition whose value the build uses
        if isinstance(T, navgen.Def):
            stats["decided"] += 1
            want = [site_of(T)]
            if got_def != want:
                fail("go-to-definition answers %s, the build uses %s" % (got_def, want), item="definition", got=got_def, want=want)
        elif T == "none":
            if got_def:
                fail("go-to-definition answers %s for a name without a definition site" % (got_def,), item="definition", got=got_def)
        # --- references: exactly the occurrences that mean the same definition (+ the definition site)
        if refs_t is None or refs_f is None or hl is None:
            fail("no answer to references/highlight", item="references")
            continue
        if isinstance(T, navgen.Def):
            sure, maybe = expected_references(p, T)
            got_occ, stray = set(), []
            for r in set(refs_t):
                inside = occurrences_in(p, r)
                if not inside:
                    stray.append(r)
                for x in inside:
                    got_occ.add(x.key())
            # an import argument `x as y` is reported as one range: both identifiers in it count
            if stray:
                fail("references contains ranges that are no identifier occurrence: %s" % stray, item="references", got=sorted(set(refs_t)))
            missing = sure - got_occ
            extra = got_occ - sure - maybe
            if missing and not extra and klass is None:
                # the only thing wrong is that occurrences of a known class are not listed
                ks = {known_class(p, x) for x in p.occs if x.key() in missing}
                if len(ks) == 1 and None not in ks:
                    klass = ks.pop()
            if missing or extra:
                fail("references != occurrences bound to the definition: missing %s extra %s" % (sorted(missing), sorted(extra)),
                     item="references", got=sorted(set(refs_t)), missing=sorted(missing), extra=sorted(extra))
            # without the declaration: the same minus the definition site
            want_f = set(refs_t) - {site_of(T)}
            if set(refs_f) != want_f and set(refs_f) != set(refs_t) - {site_of(T)}:
                fail("references(includeDeclaration=false) %s != references(true) minus the definition site %s" % (sorted(set(refs_f)), sorted(want_f)),
                     item="references_nodecl")
            if site_of(T) in set(refs_f) and not any(oo.key() == (T.file, T.line, T.col, T.col + len(T.name)) and oo.role != "def" for oo in p.occs):
                fail("references(includeDeclaration=false) contains the definition site", item="references_nodecl")
            if site_of(T) not in set(refs_t):
                fail("references(includeDeclaration=true) lacks the definition site", item="references_decl")
        # --- highlights = references restricted to this file
        want_hl = {r for r in set(refs_t) if r[0] == o.file}
        if set(hl) != want_hl:
            fail("documentHighlight %s != references in this file %s" % (sorted(set(hl)), sorted(want_hl)), item="highlight",
                 got=sorted(set(hl)), want=sorted(want_hl))
    # --- symmetry on the server's own answers: o in references(at q)  <=>  definition(o) = definition(q)
    by_def = {}
    for o in p.occs:
        g = goto_cache[o.key()]
        if g:
            by_def.setdefault(tuple(g), set()).add(o.key())
    return bad


def build_truth(probe, p):
    r = probe.call({"cmd": "asm", "files": p.files()}, timeout=300.0)
    if "crash" in r or "hang" in r or "panic" in r:
        return ["probe: %s" % json.dumps(r)[:200]]
    return navgen.ground_truth(p, r)


def gen_project(rng):
    return navgen.Gen(rng).generate()


# ----------------------------------------------------------------------------- corpus (fixed witnesses)
def corpus_projects():
    out = []
    if os.path.isdir(CORPUS):
        for fn in sorted(os.listdir(CORPUS)):
            if fn.endswith(".json"):
                out.append((fn, json.load(open(os.path.join(CORPUS, fn)))))
    return out


def run_corpus_case(chk, name, case, sess_factory, stats):
    """a corpus case lists files and, per occurrence, the expected definition site (or null)"""
    with sess_factory(case["files"]) as sess:
        if sess.diagnostics():
            chk.oracle_failure(None, "corpus %s no longer error-free: %s" % (name, sess.diagnostics()), {"corpus": name})
            return
        for q in case["occurrences"]:
            f, line, col, want = q["file"], q["line"], q["col"], q.get("definition")
            got = sess.definition(f, line, col)
            stats["occurrences"] += 1
            w = [tuple(want)] if want else []
            if [tuple(g) for g in got] != w:
                chk.oracle_failure(q.get("class"), "corpus %s: go-to-definition at %s:%d:%d answers %s, the build uses %s (%s)" % (
                    name, f, line, col, got, w, case.get("what", "")), {"corpus": name, "files": case["files"], "query": q, "got": got})
            if "references" in q:
                refs = sess.references(f, line, col, True)
                if sorted(set(refs or [])) != sorted(tuple(x) for x in q["references"]):
                    chk.oracle_failure(q.get("class"), "corpus %s: references at %s:%d:%d = %s, expected %s" % (
                        name, f, line, col, sorted(set(refs or [])), q["references"]), {"corpus": name, "files": case["files"], "query": q, "got": refs})
            if "highlight" in q:
                hl = sess.highlight(f, line, col)
                if sorted(set(hl or [])) != sorted(tuple(x) for x in q["highlight"]):
                    chk.oracle_failure(q.get("class"), "corpus %s: highlights at %s:%d:%d = %s, expected %s" % (
                        name, f, line, col, sorted(set(hl or [])), q["highlight"]), {"corpus": name, "files": case["files"], "query": q, "got": hl})


def run(chk):
    rng = random.Random(chk.seed)
    chk.proof = common.prove("C16")
    probe = Proc([common.build_probe()])
    mos = common.build_mos()
    thorough = chk.tier == "thorough"
    n = 1000 if thorough else 100
    workdir = os.path.join(common.CACHE, "work")
    os.makedirs(workdir, exist_ok=True)
    stats = {"programs": 0, "discarded": 0, "occurrences": 0, "decided": 0, "dotted_segments": 0, "multi_file": 0}
    feats = {}

    def sess_factory(files):
        return lsp_nav.NavSession(mos, files, workdir)
    for name, case in corpus_projects():
        try:
            try:
                run_corpus_case(chk, name, case, sess_factory, stats)
            except lsp_nav.ServerSlow:
                run_corpus_case(chk, name, case, sess_factory, stats)      # once more; a second timeout propagates as a crash of the check
        except lsp_nav.ServerDied as e:
            chk.oracle_failure(None, "server died on corpus %s: %s" % (name, e), {"corpus": name})
    import c16model
    modelchk = c16model.ModelTie(chk)
    seen = set()
    i = 0
    while stats["programs"] < n and i < 4 * n:
        i += 1
        sub = random.Random(rng.getrandbits(64))
        p = gen_project(sub)
        files = p.files()
        key = json.dumps(files, sort_keys=True)
        if key in seen:
            continue
        seen.add(key)
        problems = build_truth(probe, p)
        if problems:
            stats["discarded"] += 1
            continue
        try:
            with sess_factory(files) as sess:
                d = sess.diagnostics()
                if d:
                    # the build is clean but the server reports diagnostics: greedy analysis differs; C14/C04's business
                    stats["discarded"] += 1
                    stats["server_diagnostics"] = stats.get("server_diagnostics", 0) + 1
                    continue
                bad = check_project(chk, p, sess, stats, {"files": files})
        except lsp_nav.ServerSlow:
            stats["slow_skipped"] = stats.get("slow_skipped", 0) + 1    # a loaded machine is not a verdict
            continue
        except lsp_nav.ServerDied as e:
            chk.oracle_failure(None, "server died: %s" % e, {"files": files})
            continue
        modelchk.check(p, p.server_answers)
        stats["programs"] += 1
        if len(files) > 1:
            stats["multi_file"] += 1
        for f in p.features:
            feats[f] = feats.get(f, 0) + 1
        nontrivial = 1 if (len({d.name for d in p.defs}) < len(p.defs) or len(files) > 1 or any(f.startswith("path_") and f != "path_plain" for f in p.features)) else 0
        chk.count(1, nontrivial)
        chk.sample({"files": files, "occurrences": len(p.occs), "features": sorted(p.features)}, limit=3)
    probe.stop()
    modelchk.finish(stats)
    if stats["discarded"] > 0.2 * (stats["discarded"] + stats["programs"]) + 3:
        chk.tie_break("generator-domain", "%d of %d generated projects no longer assemble or analyse without diagnostics (normally < 6%%): "
                      "path forms the generator relies on (bubbling, dotted, super, imports) stopped working" % (
                          stats["discarded"], stats["discarded"] + stats["programs"]), {"stats": stats})
    chk.cov["rule"] = ("seeded random error-free projects (1-3 files): nested label/anonymous scopes with names drawn from a 6-name pool "
                       "(shadowing), plain / dotted / super / super-dotted / sibling-super paths, forward references, macros with parameters "
                       "(literal and symbol arguments, local labels, invoked 1-3x at root and in nested scopes, uninvoked macros), taken and "
                       "untaken .if branches, string constants with interpolation, imports (*, * as ns, x, x as y), defined(); EVERY identifier "
                       "occurrence is queried (definition, references with/without declaration, highlight) on the real server; ground truth = "
                       "which definition's distinguishing value appears in the bytes `mosprobe asm` (= mos build) produced for the using "
                       "statement; distinct = distinct project text; non-trivial = shadowed name, non-plain path or several files")
    stats["evaluations_are"] = "programs; occurrences counted separately"
    chk.extra["distribution"] = {"stats": stats, "features": feats}
    chk.assumptions = ["programs are ASCII, one statement per line, identifier paths on one line",
                       "occurrences never assembled by the build (untaken branch, uninvoked macro) use globally unique names; their meaning is 'the only definition of that name'",
                       "parameters of uninvoked macros have no binding (the macro scope is never instantiated) and are only checked for consistency",
                       "one occurrence bound to different definitions within one build (macro body expanded in different scopes) is outside the property's 'the definition'"]
    return chk.finish(extra_trusted=["hand model of symbols.rs / analysis.rs / references.rs (model/SymGraph.v, model/Analysis.v), validated per run by the "
                                     "correspondence of the extracted model with mos-core's SymbolTable and Analysis (harness_nav) and with the real LSP server",
                                     "gen/navgen.py ground truth: distinguishing values read from the build's bytes and source map"])


def replay(chk, path):
    obj = json.load(open(path))
    rep = obj["replay"]
    mos = common.build_mos()
    files = rep["files"]
    with lsp_nav.NavSession(mos, files, os.path.join(common.CACHE, "work")) as sess:
        out = {"diagnostics": sess.diagnostics()}
        if "occurrence" in rep:
            f, line, col, text, role = rep["occurrence"]
            out["definition"] = sess.definition(f, line, col)
            out["references"] = sess.references(f, line, col, True)
            out["highlight"] = sess.highlight(f, line, col)
        print(json.dumps({"files": files, "answer": out, "recorded": obj.get("what")}, indent=1))
    return 0

"""C06 -- every input terminates cleanly: no crash, no hang, output or located diagnostics.

translators (pass loop, panic sites, evaluator) -> proofs (props/C06.v) -> correspondence:
  * site-directed programs: the extracted model (model/Sites.v, Expr.v, ExprParse.v) PREDICTS ok / diagnostic kind /
    panic for the statement under test; the real implementation (c06probe child process; panics caught, aborts and
    hangs observed, the pass loop watched through hook H1) must agree;
  * pass loop: the extracted loop (model/PassLoop.v, cap and rules translated from codegen()) is replayed over the
    per-pass observations of H1 and must leave after the same number of passes through the same kind of exit;
  * oracle (the spec on the implementation's output) on everything, including grammar-generated, mutated and random
    inputs, import graphs, nesting, macros, normal and greedy codegen, merge, listing, format, and the real `mos build`.
A failure inside a Known_* class of known_findings.txt is a KNOWN-FINDING; anything else a VIOLATION.
"""
import json
import os
import random
import re
import shutil
import subprocess
import tempfile
import time

import common
from common import Proc, log

I64_MIN, I64_MAX = -2 ** 63, 2 ** 63 - 1
PC0 = 0xC000
SWEEP = [0, -1, 1, 255, 256, 65535, 65536, 2 ** 31, 2 ** 63 - 1, 2 ** 63, 2 ** 64, 10 ** 19 + 7, 12345678901234567890123,
         -255, -65536, -2 ** 31, -(2 ** 63 - 1), -2 ** 63, 2, 3, 63, 64, 4095, 49152, 2 ** 40, 2 ** 62, 2 ** 62 - 1]
OPS = ["+", "-", "*", "/", "%", "<<", ">>", "^", "==", "!=", ">", ">=", "<", "<=", "&&", "||"]
HANG_WATCHDOG = 8.0          # seconds; a normal request takes ~5-20 ms (bound >= 400x)
REQ_TIMEOUT = 30.0


def T(s):
    return [ord(c) for c in s]


# ----------------------------------------------------------------------------- implementation side
class Child:
    """c06probe in a child process (address space limited); a crash / hang is an observation, the child is restarted"""

    def __init__(self, exe):
        self.proc = Proc(["bash", "-c", "ulimit -v 6000000; exec " + exe], timeout=REQ_TIMEOUT)
        self.requests = 0

    def run(self, files, timeout=None, disk=False, **kw):
        req = {"files": files, "max_passes": CAP_WATCH, "stop_on_repeat": False}
        req.update(kw)
        self.requests += 1
        if not disk:
            return self.proc.call(req, timeout=timeout)
        # the project is written to a scratch directory and read through the file-system source (as `mos build` does)
        workdir = os.path.join(common.CACHE, "work")
        os.makedirs(workdir, exist_ok=True)
        d = tempfile.mkdtemp(prefix="c06p_", dir=workdir)
        try:
            for name, text in files.items():
                path = os.path.join(d, name)
                os.makedirs(os.path.dirname(path), exist_ok=True)
                with open(path, "w", encoding="utf-8") as f:
                    f.write(text)
            req["dir"] = d
            return self.proc.call(req, timeout=timeout)
        finally:
            shutil.rmtree(d, ignore_errors=True)

    def stop(self):
        self.proc.stop()


CAP_WATCH = 260          # the observer stops the loop after this many distinct passes (the implementation's own cap is 200)

DIAG_KINDS = [
    (r"cannot align to ", "align_not_positive", 1),
    (r"is not a valid name: a name may not contain a period", "name_with_period", 2),
    (r"segment '.*' is out of range", "segment_out_of_range", 3),
    (r"does not fit in 64 bits", "evaluation", 4),
    (r"cannot apply operation|unknown function|expected \d+ arguments|could not interpolate", "evaluation", 4),
    (r"does not evaluate to an integer", "not_an_integer", 5),
    (r"must lie between 0 and \$(?:10000|FFFF)|relocated address would be negative", "pc_out_of_range", 8),
    (r"cannot loop .* times", "loop_budget", 9),
    (r"may be nested at most \d+ levels deep", "nested_too_deep", 10),
    (r"cyclic import", "cyclic_import", 6),
    (r"did not converge after", "no_convergence", 7),
    (r"unknown identifier", "unknown_identifier", 8),
    (r"branch too far", "branch_too_far", 9),
    (r"invalid instruction", "invalid_instruction", 10),
    (r"cannot redefine symbol|cannot import an already defined", "redefinition", 11),
    (r"file not found", "file_not_found", 12),
    (r"is not assigned to any bank|bank .* (not|unknown)|Unknown definition type|does not evaluate to a string|may not be negative|"
     r"the size of bank|"
     r"should have be .* bytes|exceeds maximum size|"
     r"could not evaluate configuration key|required|not allowed|field", "configuration", 13),
]


def diag_kind(msg):
    for pat, name, _ in DIAG_KINDS:
        if re.search(pat, msg):
            return name
    return "other"


def stage_outcome(x, later_stages=True):
    """one codegen stage of the probe's reply -> (class, detail); later_stages: bank merge and listing count too"""
    if x is None:
        return ("absent", None)
    if "panic" in x:
        return ("panic", x["panic"])
    if x.get("stop"):
        return ("no_convergence_within_watch", x["stop"])
    for k in ("merge_panic", "listing_panic", "extra_pass_panic"):
        if k in x and (later_stages or k == "merge_panic"):
            return ("panic", dict(x[k], where=k))
    errs = x.get("errors", []) + x.get("merge_errors", []) + (x.get("listing_errors", []) if later_stages else [])
    if errs:
        return ("diag", sorted(set(diag_kind(e["msg"]) for e in errs)))
    return ("ok", None)


def bad_locations(diags):
    """oracle on locations: every label of every diagnostic lies inside an existing file, on character boundaries"""
    bad = []
    for d in diags:
        for l in d.get("labels", []):
            if not l.get("in_file") or not l.get("char_boundary") or l.get("line_col") is None:
                bad.append({"msg": d["msg"], "label": l})
    return bad


class Known:
    """No Known_* class is left for C06: every crash / hang / panic is a violation.  What remains here are the extractors
    the site-directed streams use to hand program structure (macro invocation graphs) to the model."""

    def __init__(self, model):
        self.model = model

    @staticmethod
    def strip(text):
        text = re.sub(r"/\*.*?\*/", " ", text, flags=re.S)
        text = re.sub(r"//[^\n]*", " ", text)
        return re.sub(r'"[^"\n]*"', '""', text)

    def macro_graph(self, files):
        text = "\n".join(self.strip(t) for t in files.values())
        bodies, spans = {}, []
        for m in re.finditer(r"\.macro\s+([A-Za-z_][A-Za-z0-9_]*)\s*\(", text, flags=re.I):
            i = text.find("{", m.end())
            if i < 0:
                continue
            depth, j = 0, i
            while j < len(text):
                if text[j] == "{":
                    depth += 1
                elif text[j] == "}":
                    depth -= 1
                    if depth == 0:
                        break
                j += 1
            bodies.setdefault(m.group(1).lower(), []).append(text[i:j + 1])
            spans.append((m.start(), j + 1))
        names = sorted(bodies)
        idx = {n: k + 1 for k, n in enumerate(names)}
        top = text
        for a, b in sorted(spans, reverse=True):
            top = top[:a] + " " + top[b:]

        def calls(t):
            return sorted({idx[w.lower()] for w in re.findall(r"([A-Za-z_][A-Za-z0-9_]*)\s*\(", t) if w.lower() in idx})
        return [calls(top)] + [calls("\n".join(bodies[n])) for n in names]

    def classify(self, files, kind):
        return None

    def slow_loop(self, files):
        """a `.loop` whose count is not a literal expression evaluating to at most 4096: legal up to the budget of 65536 iterations
        per pass (C06_loops_of_a_pass_bounded), but a debug build needs minutes for tens of thousands of iterations (one scope per
        iteration, linear child lookup).  Such mutants are not run by the random streams; the budget itself is tested by sweep_loop."""
        for t in files.values():
            for m in re.finditer(r"\.loop\b([^{\n]*)", self.strip(t), flags=re.I):
                r = self.model.call({"cmd": "stmt", "kind": "value", "prefix": True, "text": T(m.group(1).strip()), "env": {"syms": [], "pc": None}})
                v = r.get("value")
                try:
                    if int(v) > 4096:
                        return True
                except (TypeError, ValueError):
                    return True
        return False


# ----------------------------------------------------------------------------- generators
MNEMS = ["lda", "ldx", "ldy", "sta", "stx", "sty", "adc", "and", "cmp", "inc", "dec", "jmp", "jsr", "bne", "beq", "bcc", "nop", "rts",
         "asl", "lsr", "rol", "brk", "tax", "pha"]


def gen_expr(rng, names, depth=2):
    r = rng.random()
    if depth == 0 or r < 0.4:
        k = rng.random()
        if k < 0.5:
            v = rng.choice([0, 1, 2, 7, 16, 127, 128, 255, 256, 1000, 4096, 49152, 65535, 65536, rng.randrange(0, 70000)])
            return rng.choice(["%d" % v, "$%x" % v, "%%%s" % bin(v)[2:]])
        if k < 0.85 and names:
            n = rng.choice(names)
            return rng.choice(["", "", "<", ">"]) + n
        return rng.choice(["*", "true", "false", "-1", "!0", "defined(foo)", "defined(defined(foo))", "defined(%s)" % gen_expr(rng, names, 0)])
    op = rng.choice(OPS)
    a, b = gen_expr(rng, names, depth - 1), gen_expr(rng, names, depth - 1)
    if rng.random() < 0.3:
        return "(%s %s %s)" % (a, op, b)
    return "%s %s %s" % (a, op, b)


def gen_program(rng, nfiles=1, allow_macros=True):
    """a grammar-generated program: mostly valid, with forward references, scopes, loops, ifs, macros, segments, data"""
    labels = ["l%d" % i for i in range(rng.randrange(1, 6))]
    consts = ["c%d" % i for i in range(rng.randrange(0, 4))]
    macros = ["m%d" % i for i in range(rng.randrange(0, 3))] if allow_macros else []
    names = labels + consts
    out = []
    if rng.random() < 0.25:
        segs = rng.randrange(1, 4)
        for s in range(segs):
            start = rng.choice(["$%04x" % rng.choice([0x0801, 0x1000, 0x2000, 0xc000, 0xff00, 0xfffe]), "segments.s%d.end" % ((s + 1) % segs) if rng.random() < 0.2 else "$4000"])
            extra = rng.choice(["", "", " pc = $8000", " write = false"])
            out.append('.define segment { name = "s%d" start = %s%s }' % (s, start, extra))
    for c in consts:
        out.append(".const %s = %s" % (c, gen_expr(rng, [n for n in names if n != c], 1)))
    for k, m in enumerate(macros):
        body = " ".join(gen_stmt(rng, names, macros[:k], 1) for _ in range(rng.randrange(1, 4)))
        out.append(".macro %s(a) { %s }" % (m, body))
    pending = list(labels)
    rng.shuffle(pending)
    n = rng.randrange(3, 18)
    for i in range(n):
        if pending and rng.random() < 0.35:
            out.append("%s:%s" % (pending.pop(), rng.choice(["", " nop", " { nop }"])))
        out.append(gen_stmt(rng, names, macros, 2))
    for l in pending:
        out.append("%s: rts" % l)
    return "\n".join(out) + "\n"


def gen_stmt(rng, names, macros, depth):
    r = rng.random()
    e = lambda d=2: gen_expr(rng, names, d)
    if r < 0.35:
        m = rng.choice(MNEMS)
        if m in ("nop", "rts", "brk", "tax", "pha"):
            return m
        if m in ("bne", "beq", "bcc"):
            return "%s %s" % (m, rng.choice(names) if names and rng.random() < 0.8 else e(1))
        form = rng.choice(["#%s", "%s", "%s,x", "%s,y", "(%s,x)", "(%s),y", "(%s)"])
        return "%s %s" % (m, form % e(1))
    if r < 0.5:
        return "%s %s" % (rng.choice([".byte", ".word", ".dword"]), ", ".join(e() for _ in range(rng.randrange(1, 4))))
    if r < 0.56:
        return '.text %s"ab{%s}"' % (rng.choice(["", "ascii ", "petscii ", "petscreen "]), rng.choice(names) if names else "x")
    if r < 0.62:
        return ".align %s" % rng.choice(["2", "4", "16", "256", e(1)])
    if r < 0.67:
        return "* = %s" % rng.choice(["$c100", "$2000", "$ffff", "$10000", "* + 3", e(1)])
    if r < 0.72 and depth > 0:
        return ".loop %s { %s }" % (rng.choice(["0", "1", "2", "3", "5", "2 + 1", "1 - 2"]), gen_stmt(rng, names + ["index"], macros, depth - 1))
    if r < 0.79 and depth > 0:
        s = ".if %s { %s }" % (e(1), gen_stmt(rng, names, macros, depth - 1))
        if rng.random() < 0.5:
            s += " else { %s }" % gen_stmt(rng, names, macros, depth - 1)
        return s
    if r < 0.85 and macros:
        return "%s(%s)" % (rng.choice(macros), e(1))
    if r < 0.9 and depth > 0:
        return "{ %s }" % gen_stmt(rng, names, macros, depth - 1)
    if r < 0.93:
        return ".var v%d = %s" % (rng.randrange(3), e(1))
    if r < 0.955:
        return '.segment "s%d" { nop }' % rng.randrange(3)
    if r < 0.965:
        return '.define segment { name = "s%d" start = $%04x }' % (rng.randrange(3), rng.choice([0x1000, 0x1001, 0x2000, 0x4000]))
    if r < 0.972:
        return "segments: { %s: { %s: nop } }" % (rng.choice(["default", "s0", "s1", "other"]), rng.choice(["start", "end", "mid"]))
    return rng.choice([".assert 1 == 1", ".trace (a)", ".test \"t\" { nop }", "// c", "/* b */ nop"])


MUT_ALPHABET = list("{}()\"'.,#$%*=+-<>!/\\ \n\t\r:;0123456789abcdefxyzAZ_&|^~@`") + ["é", "K", "İ", "ß", "\U0001F600", "\x00", "\x7f"]


def mutate(rng, text):
    k = rng.randrange(1, 3)
    for _ in range(k):
        if not text:
            text = rng.choice(MUT_ALPHABET)
            continue
        i = rng.randrange(len(text) + 1)
        r = rng.random()
        if r < 0.4:
            text = text[:i] + rng.choice(MUT_ALPHABET) + text[i:]
        elif r < 0.7 and i < len(text):
            text = text[:i] + text[i + 1:]
        elif i < len(text):
            text = text[:i] + rng.choice(MUT_ALPHABET) + text[i + 1:]
    return text


def lit(v):
    """source text of an integer: a negative value is written with unary minus; i64::MIN as an expression"""
    if v == I64_MIN:
        return "(-9223372036854775807 - 1)"
    return "-%d" % -v if v < 0 else "%d" % v


# ----------------------------------------------------------------------------- the check
class Run:
    def __init__(self, chk):
        self.chk = chk
        self.rng = random.Random(chk.seed)
        self.dist = {}
        self.seen = set()

    def bump(self, k, n=1):
        self.dist[k] = self.dist.get(k, 0) + n

    # ---- oracle on one probe reply -----------------------------------------------------------------
    def oracle(self, stream, files, reply, req=None, expect_known=None):
        """the spec on the implementation's behaviour; returns the list of failures (each already reported)"""
        chk, fails = self.chk, []
        replay = {"stream": stream, "files": files, "request": req or {}}

        def fail(kind, what):
            klass = self.known.classify(files, kind)
            fails.append((kind, klass))
            chk.oracle_failure(klass, "[%s] %s" % (stream, what), dict(replay, observed=what, kind=kind))

        if reply.get("crash"):
            fail("abort", "the process died (%s) -- stack overflow / abort" % reply["crash"])
            return fails
        if reply.get("hang"):
            fail("hang", "no answer within %.0f s (a normal request takes milliseconds)" % (req or {}).get("_timeout", REQ_TIMEOUT))
            return fails
        if "panic" in reply:
            fail("panic", "panic outside the staged calls: %s" % reply["panic"])
            return fails
        p = reply.get("parse", {})
        if "panic" in p:
            fail("panic", "the parser panics: %s at %s" % (p["panic"]["msg"][:120], p["panic"]["loc"]))
            return fails
        diags = list(p.get("errors", []))
        produced_output = False
        for st in ("codegen", "greedy"):
            x = reply.get(st)
            if x is None:
                continue
            cls, det = stage_outcome(x)
            self.bump("%s:%s" % (st, cls))
            if cls == "panic":
                fail("panic", "%s panics: %s at %s" % (st, det["msg"][:120], det.get("loc") or det.get("where")))
            elif cls == "no_convergence_within_watch":
                fail("hang", "%s: the pass loop did not stop within %d passes (%s%s)" % (
                    st, CAP_WATCH, det, "; digest repeats: " + json.dumps(x.get("repeat")) if x.get("repeat") else ""))
            diags += x.get("errors", []) + x.get("merge_errors", []) + x.get("listing_errors", [])
            if cls == "ok":
                produced_output = True
                if x.get("repeat"):
                    # the loop state recurred, so the passes never converge; reporting success means an arbitrary pass was taken as the result
                    fail("hang", "%s reports success although the pass loop never converges (the loop state of pass %d recurs in pass %d)"
                         % (st, x["repeat"]["first"], x["repeat"]["again"]))
        for name, f in (reply.get("format") or {}).items():
            if "panic" in f:
                fail("panic", "format(%s) panics: %s at %s" % (name, f["panic"]["msg"][:120], f["panic"]["loc"]))
        if not fails and not produced_output and not diags and ("codegen" in reply or "greedy" in reply or not p.get("tree")):
            fail("silent", "neither output nor a diagnostic")
        bad = bad_locations(diags)
        if bad:
            fails.append(("location", None))
            chk.oracle_failure(None, "[%s] a diagnostic location lies outside every file / inside a character: %s" % (stream, json.dumps(bad[0])[:300]),
                               dict(replay, bad=bad[:3]))
        return fails

    # ---- pass loop tie -----------------------------------------------------------------------------
    def loop_tie(self, stream, files, reply):
        for st in ("codegen", "greedy"):
            x = reply.get(st)
            if not x or "panic" in x or x.get("stop") or not x.get("passes"):
                continue
            trace = [{"ne": p["ne"], "e": str(int(p["e"], 16)), "nu": p["nu"], "u": str(int(p["u"], 16)), "added": p["added"], "changed": p.get("changed", 0), "nseg": p["nseg"]}
                     for p in x["passes"]]
            if self.cap is not None and len(trace) > self.cap:
                self.chk.oracle_failure(None, "[%s] %s ran %d passes, more than the cap of %d the termination theorem is about" % (stream, st, len(trace), self.cap),
                                        {"stream": stream, "files": files})
            m = self.model.call({"cmd": "replay", "trace": trace})
            msgs = [e["msg"] for e in x.get("errors", [])]
            if any("did not converge" in s for s in msgs):
                impl_exit = "cap"
            elif not msgs or x["passes"][-1]["ne"] == 0 and x["passes"][-1]["nu"] == 0:
                impl_exit = "clean"          # errors, if any, come from finalize()
            elif x["passes"][-1]["ne"] > 0:
                impl_exit = "same_errors"
            else:
                impl_exit = "same_undefined"
            self.bump("loop_exit:" + impl_exit)
            self.bump("passes:%s" % (len(trace) if len(trace) < 8 else "8+"))
            if m.get("passes") != len(trace) or m.get("exit") != impl_exit:
                self.chk.tie_break("correspondence:pass_loop", "%s: the implementation left the loop after %d passes (%s), the model replayed on the same "
                                   "per-pass observations leaves after %s (%s)" % (st, len(trace), impl_exit, m.get("passes"), m.get("exit")),
                                   {"stream": stream, "files": files, "trace": trace, "model": m})
            if impl_exit == "cap":
                self.bump("cap_reached")
                if not x.get("repeat"):
                    self.bump("cap_without_repeat")

    def case(self, stream, files, nontrivial=1, timeout=None, sample=False, **kw):
        key = (stream.split(":")[0], json.dumps(files, sort_keys=True), json.dumps(kw, sort_keys=True))
        if key in self.seen:
            return None, None
        self.seen.add(key)
        req = dict(kw)
        if timeout:
            req["_timeout"] = timeout
        reply = self.child.run(files, timeout=timeout, **kw)
        if kw.get("disk") and isinstance(reply, dict):
            reply = json.loads(re.sub(r"/[^\"\s]*?/c06p_[A-Za-z0-9_]+/", "", json.dumps(reply)))     # scratch directory names are not part of the outcome
        self.chk.count(1, nontrivial)
        self.bump("stream:" + stream.split(":")[0])
        fails = self.oracle(stream, files, reply, req)
        if not reply.get("crash") and not reply.get("hang"):
            self.loop_tie(stream, files, reply)
        if sample:
            self.chk.sample({"stream": stream, "files": files, "outcome": {st: stage_outcome(reply.get(st))[0] for st in ("codegen", "greedy")}}, limit=8)
        return reply, fails

    # ---- site-directed: model predicts, implementation must agree -------------------------------------
    def expect(self, stream, files, reply, fails, predicted, what):
        """predicted: 'ok' | 'diag:<kind>' | 'panic' | 'abort' | 'hang' for the normal codegen stage"""
        if reply is None:
            return
        if reply.get("crash"):
            got = "abort"
        elif reply.get("hang"):
            got = "hang"
        else:
            cls, det = stage_outcome(reply.get("codegen"), later_stages=False)   # the statement models stop at the bank merge
            if "panic" in reply.get("parse", {}):
                got = "panic"
            elif reply.get("parse", {}).get("errors"):
                got = "diag:parse"
            elif cls == "diag":
                got = "diag:" + ",".join(det)
            else:
                got = cls
        self.bump("predicted:" + predicted.split(":")[0])
        ok = (got == predicted) or (predicted.startswith("diag:") and got.startswith("diag:") and predicted[5:] in got[5:].split(","))
        if not ok:
            self.chk.tie_break("correspondence:site", "%s: the model predicts %s, the implementation gives %s" % (what, predicted, got),
                               {"stream": stream, "files": files, "predicted": predicted, "implementation": got})

    def stmt_prediction(self, kind, text, pc=PC0, consts=None, **kw):
        env = {"syms": [[[T(k)], str(v)] for k, v in (consts or {}).items()], "pc": pc}
        r = self.model.call(dict({"cmd": "stmt", "kind": kind, "text": T(text), "pc": str(pc), "env": env}, **{k: str(v) for k, v in kw.items()}))
        if r.get("r") == "panic":
            return "panic"
        if r.get("r") == "diag":
            return "diag:" + {1: "align_not_positive", 2: "name_with_period", 3: "segment_out_of_range", 4: "evaluation", 5: "not_an_integer",
                               8: "pc_out_of_range", 9: "loop_budget", 10: "nested_too_deep"}[int(r["d"])]
        if r.get("r") in ("emitted", "nothing"):
            return "ok"
        return "noparse"

    def sweep_sites(self, thorough):
        rng = self.rng
        vals = SWEEP
        # ---- binary operators over the sweep values (operands as constants so that negative values are operands too)
        pairs = [(a, b) for a in vals for b in vals if I64_MIN <= a <= I64_MAX and I64_MIN <= b <= I64_MAX]
        rng.shuffle(pairs)
        for (a, b) in pairs[: (len(pairs) if thorough else 60)]:
            for op in (OPS if thorough else rng.sample(OPS, 5)):
                text = "a %s b" % op
                prog = ".const a = %s\n.const b = %s\n.dword %s\n" % (lit(a), lit(b), text)
                pred = self.stmt_prediction("data", text, consts={"a": a, "b": b}, size=4)
                reply, fails = self.case("sweep_binop:%s" % op, {"main.asm": prog})
                self.expect("sweep_binop", {"main.asm": prog}, reply, fails, pred, "`%s` with a=%d b=%d" % (text, a, b))
        # ---- literals (wider than 64 bits, TRUE/False, leading zeros) and unary minus
        for v in vals:
            for text in ([str(abs(v)), "$%x" % abs(v), "%%%s" % bin(abs(v))[2:], "-%d" % abs(v), "!-%d" % abs(v), "000%d" % abs(v)] +
                         (["TRUE", "False", "tRuE + 1"] if v == 0 else [])):
                prog = ".dword %s\n" % text
                pred = self.stmt_prediction("data", text, size=4)
                reply, fails = self.case("sweep_literal", {"main.asm": prog})
                self.expect("sweep_literal", {"main.asm": prog}, reply, fails, pred, "`.dword %s`" % text)
        # ---- .align
        for v in vals:
            for text in [lit(v), "%s + 0" % lit(v)] if I64_MIN <= v <= I64_MAX else [str(v)]:
                prog = "nop\n.align %s\n" % text
                pred = self.stmt_prediction("align", text, pc=PC0 + 1)
                reply, fails = self.case("sweep_align", {"main.asm": prog})
                self.expect("sweep_align", {"main.asm": prog}, reply, fails, pred, "`.align %s` at $c001" % text)
        # ---- `* =` followed by one byte (default segment: initial = target = $c000)
        for v in vals:
            text = lit(v) if I64_MIN <= v <= I64_MAX else str(v)
            prog = "* = %s\nnop\n" % text
            pred = self.stmt_prediction("pc", text, initial=PC0, target=PC0)
            reply, fails = self.case("sweep_pc", {"main.asm": prog})
            self.expect("sweep_pc", {"main.asm": prog}, reply, fails, pred, "`* = %s` then nop" % text)
        # ---- `* =` inside a relocated segment (start 0, pc $1000; start $2000, pc 0): the relocated address decides too
        for (ini, tgt) in [(0, 0x1000), (0x2000, 0)]:
            for v in vals + [0x1000, 0x1fff, 0x2000, 0xffff]:
                text = lit(v) if I64_MIN <= v <= I64_MAX else str(v)
                prog = '.define segment { name = "a" start = %d pc = %d }\n* = %s\nnop\n' % (ini, tgt, text)
                pred = self.stmt_prediction("pc", text, pc=ini, initial=ini, target=tgt)
                reply, fails = self.case("sweep_pc_relocated", {"main.asm": prog})
                self.expect("sweep_pc_relocated", {"main.asm": prog}, reply, fails, pred, "`* = %s` in a segment start=%d pc=%d, then nop" % (text, ini, tgt))
        # ---- branch targets (segment-less pass 0 uses the target as the base of `+ 2`)
        for v in [x for x in vals if I64_MIN <= x <= I64_MAX] + [-2, -3, -128]:
            prog = "bcc %s\n" % lit(v)
            r = self.model.call({"cmd": "branch", "target": str(v)})                       # pass 0: no segment yet
            if r["r"] != "panic":
                r = self.model.call({"cmd": "branch", "target": str(v), "cur": str(PC0)})    # later passes
            reply, fails = self.case("sweep_branch", {"main.asm": prog})
            if reply is not None and not reply.get("crash") and not reply.get("hang"):
                cls, det = stage_outcome(reply.get("codegen"), later_stages=False)
                self.bump("predicted:" + ("panic" if r["r"] == "panic" else "ok"))
                if (r["r"] == "panic") != (cls == "panic"):
                    self.chk.tie_break("correspondence:site", "`bcc %d`: model predicts %s for the branch arithmetic, implementation %s" % (v, r["r"], cls), {"files": {"main.asm": prog}})
        # ---- segment options start / pc
        opts = [v for v in vals if I64_MIN <= v <= I64_MAX]
        combos = [(s, p) for s in opts for p in opts]
        rng.shuffle(combos)
        for (s, p) in combos[: (200 if thorough else 40)]:
            prog = '.define segment { name = "a" start = %s pc = %s }\nnop\n' % (lit(s), lit(p))
            r = self.model.call({"cmd": "segment", "start": str(s), "pc": str(p)})
            pred = "panic" if r["r"] == "panic" else ("diag:" + {3: "segment_out_of_range", 8: "pc_out_of_range"}[int(r["d"])] if r["r"] == "diag" else "ok")
            reply, fails = self.case("sweep_segment", {"main.asm": prog})
            self.expect("sweep_segment", {"main.asm": prog}, reply, fails, pred, "segment start=%d pc=%d then nop" % (s, p))
        # ---- bank options size / fill: the model predicts diagnostic / the padding built in memory (at most 16 MiB)
        for v in opts:
            for fill in (True, False):
                prog = '.define bank { name = "b" size = %s%s }\n.define segment { name = "a" start = $1000 bank = "b" }\nnop\n' % (lit(v), " fill = 7" if fill else "")
                r = self.model.call({"cmd": "bank", "size": str(v), "len": "1", "fill": fill})
                pred = "ok" if r["r"] == "ok" else ("panic" if r["r"] == "panic" else "diag:configuration")
                reply, fails = self.case("sweep_bank", {"main.asm": prog})
                self.expect("sweep_bank", {"main.asm": prog}, reply, fails, pred, "bank size %d fill=%s" % (v, fill))
        # ---- names
        for name in ["a", "a.b", ".", "a.", "..", "x y", "", "é.é", "default", "$dummy"]:
            r = self.model.call({"cmd": "name", "text": T(name)})
            pred = {"ok": "ok", "diag": "diag:name_with_period", "panic": "panic"}[r["r"]]
            for tmpl in ['.define segment {{ name = "{0}" }}\nnop\n', '.define bank {{ name = "{0}" }}\nnop\n',
                         '.define segment {{ name = "s" bank = "{0}" }}\n.define bank {{ name = "{0}" }}\nnop\n']:
                prog = tmpl.format(name)
                reply, fails = self.case("sweep_name", {"main.asm": prog})
                if reply is not None and not reply.get("parse", {}).get("errors"):
                    cls, det = stage_outcome(reply.get("codegen"))
                    got_period = cls == "diag" and "name_with_period" in det
                    self.bump("predicted:" + pred.split(":")[0])
                    if (pred == "diag:name_with_period") != got_period or (pred == "panic") != (cls == "panic"):
                        self.chk.tie_break("correspondence:site", "name %r: model predicts %s, implementation %s %s" % (name, pred, cls, det),
                                           {"files": {"main.asm": prog}})
            prog = '.define segment { name = "s" }\n.segment "%s" { nop }\n' % name
            self.case("sweep_name", {"main.asm": prog})
        # ---- .loop counts against the budget of the pass (counts between 4097 and the limit are legal but take minutes in
        #      a debug build -- one scope per iteration, quadratic symbol lookup -- and are not run)
        for v in [0, -1, 1, 3, 255, 256, 4095, -2 ** 63, 65537, 2 ** 31, 2 ** 63 - 1]:
            for body in ["", "nop"]:
                prog = ".loop %s { %s }\nrts\n" % (lit(v), body)
                r = self.model.call({"cmd": "loop", "used": "0", "count": str(v)})
                pred = "ok" if r["r"] == "ok" else "diag:loop_budget"
                reply, fails = self.case("sweep_loop", {"main.asm": prog})
                self.expect("sweep_loop", {"main.asm": prog}, reply, fails, pred, "`.loop %d`" % v)
        for (a, b) in [(16, 16), (3, 70000), (2, 5)] + ([(257, 256)] if thorough else []):      # the last one exhausts the budget across loops (~10 s)
            prog = ".loop %d { .loop %d { } }\n" % (a, b)
            # the outer loop reserves its count on entry, the inner loop reserves again in every outer iteration
            r = self.model.call({"cmd": "loop", "used": "0", "count": str(a)})
            k = 0
            while r["r"] == "ok" and k < a:
                r = self.model.call({"cmd": "loop", "used": r["v"], "count": str(b)})
                k += 1
            pred = "ok" if r["r"] == "ok" else "diag:loop_budget"
            reply, fails = self.case("sweep_loop", {"main.asm": prog})
            self.expect("sweep_loop", {"main.asm": prog}, reply, fails, pred, "nested loops %d x %d" % (a, b))
        # sequences of loops in ONE pass: negative counts (literal, constant, computed) must not refund budget to the loops
        # that follow; counts that only together exceed the budget; i64 extremes.  The model folds loop_enter over the counts.
        MIN = -2 ** 63
        seqs = [[-1, 65537], [-70000, 70000], [-4000000000008, 4000000000000], [MIN + 1, 2 ** 63 - 1], [MIN, 70000], [MIN, MIN, 5],
                [-5, 3, -2 ** 40, 65536 + 2 ** 39], [0, -1, 4, -3, 2], [3, -65540, 65534 * 0 + 70000], [2 ** 63 - 1, -2 ** 63 + 1]]
        for seq in seqs:
            for style in ("literal", "const", "computed"):
                lines = []
                for k, c in enumerate(seq):
                    if style == "literal":
                        lines.append(".loop %s { }" % lit(c))
                    elif style == "const":
                        lines += [".const n%d = %s" % (k, lit(c)), ".loop n%d { }" % k]
                    else:
                        lines += [".const rows%d = 8" % k, ".loop rows%d + %s { }" % (k, lit(c - 8) if c - 8 >= MIN else lit(c))]
                        if c - 8 < MIN:
                            lines[-2] = ".const rows%d = 0" % k
                prog = "\n".join(lines) + "\n"
                used, pred = "0", "ok"
                for c in seq:
                    r = self.model.call({"cmd": "loop", "used": used, "count": str(c)})
                    if r["r"] != "ok":
                        pred = "panic" if r["r"] == "panic" else "diag:loop_budget"
                        break
                    used = r["v"]
                reply, fails = self.case("sweep_loop_sequence", {"main.asm": prog})
                self.expect("sweep_loop_sequence", {"main.asm": prog}, reply, fails, pred, "loops %s in one pass (%s)" % (seq, style))
        # counts that only together exceed the budget (nested, so that the symbol table stays shallow and fast)
        for (a, b, n) in [(20, 1500, 2), (20, 1500, 3)]:
            prog = "".join(".loop %d { .loop %d { } }\n" % (a, b) for _ in range(n))
            used, pred = 0, "ok"
            for _ in range(n):
                used += a
                for _ in range(a):
                    if b > 65536 - used:
                        pred = "diag:loop_budget"
                        break
                    used += b
                if pred != "ok":
                    break
            if used > 65536 - 0 and pred == "ok":
                pred = "diag:loop_budget"
            reply, fails = self.case("sweep_loop_sequence", {"main.asm": prog})
            self.expect("sweep_loop_sequence", {"main.asm": prog}, reply, fails, pred, "%d times %d x %d loops in one pass" % (n, a, b))
        # a million iterations requested by three nested loops of 100: the shared budget stops it after 65536 (a budget per
        # loop would let all of them run)
        prog = ".loop 100 { .loop 100 { .loop 100 { } } }\n"
        reply, fails = self.case("sweep_loop", {"main.asm": prog})
        self.expect("sweep_loop", {"main.asm": prog}, reply, fails, "diag:loop_budget", "three nested loops of 100")

    def import_graphs(self, n):
        rng = self.rng
        for i in range(n):
            nf = rng.randrange(1, 5)
            names = ["main.asm"] + ["f%d.asm" % k for k in range(1, nf)]
            graph, files, missing_in = [], {}, set()
            for k, name in enumerate(names):
                lines, edges = [], []
                for _ in range(rng.choice([0, 1, 1, 2])):
                    t = rng.randrange(0, nf + 1)
                    if t == nf:
                        target = "missing.asm"
                        missing_in.add(k)
                    else:
                        target = names[t]
                        edges.append(t)
                    form = rng.choice(['.import * from "%s"', '.import * as q%d from "%%s"' % k, '.import x%d from "%%s"' % t, '.import * from "%s" { .const k = 1 }'])
                    lines.append(form % target)
                lines.append("x%d: nop" % k)
                files[name] = "\n".join(lines) + "\n"
                graph.append(edges)
            pred = self.model.call({"cmd": "depth", "kind": "import", "graph": graph})
            # files the parser reaches from main.asm (it follows every import of every parsed file, once)
            reach, todo = set(), [0]
            while todo:
                k = todo.pop()
                if k not in reach:
                    reach.add(k)
                    todo += graph[k]
            missing = any(k in reach for k in missing_in)
            reply, fails = self.case("import_graph", files, sample=(i < 2))
            if reply is None or reply.get("crash") or reply.get("hang"):
                continue
            self.bump("import:" + ("missing" if missing else pred["r"]))
            if missing:
                if not any("file not found" in e["msg"] for e in reply.get("parse", {}).get("errors", [])):
                    self.chk.oracle_failure(None, "[import_graph] a missing imported file is not reported", {"files": files})
                continue
            cls, det = stage_outcome(reply.get("codegen"))
            cyc = cls == "diag" and "cyclic_import" in det
            if (pred["r"] == "cycle_reported") != cyc:
                self.chk.tie_break("correspondence:site", "import graph %s: model predicts %s, implementation %s %s" % (graph, pred["r"], cls, det), {"files": files})

    def import_paths(self, n):
        """import graphs whose edges are spelled with `./`, `../`, subdirectories and redundant components: the same file is
        reached under different spellings; read from disk like `mos build` does"""
        import posixpath
        rng = self.rng
        pool = ["main.asm", "lib/util.asm", "lib/deep/x.asm", "other.asm"]
        for i in range(n):
            nf = rng.randrange(1, 5)
            names = pool[:nf]
            graph, files = [], {}
            for k, name in enumerate(names):
                here = posixpath.dirname(name)
                lines, edges = [], []
                for _ in range(rng.choice([0, 1, 1, 2])):
                    t = rng.randrange(nf)
                    rel = posixpath.relpath(names[t], here or ".")
                    spell = rng.choice([rel, "./" + rel, posixpath.join("..", posixpath.basename(here), rel) if here else "./" + rel,
                                        rel.replace("/", "/./"), posixpath.join(".", ".", rel)])
                    if posixpath.normpath(posixpath.join(here, spell)) != names[t]:
                        spell = rel
                    edges.append(t)
                    lines.append(rng.choice(['.import * from "%s"', '.import * as q%d from "%%s"' % k, '.import x%d from "%%s"' % t]) % spell)
                lines.append("x%d: nop" % k)
                files[name] = "\n".join(lines) + "\n"
                graph.append(edges)
            pred = self.model.call({"cmd": "depth", "kind": "import", "graph": graph})
            reply, fails = self.case("import_paths", files, disk=True, stages=["codegen"], sample=(i < 2))
            if reply is None or reply.get("crash") or reply.get("hang"):
                continue
            self.bump("import_paths:" + pred["r"])
            cls, det = stage_outcome(reply.get("codegen"))
            cyc = cls == "diag" and "cyclic_import" in det
            if reply.get("parse", {}).get("errors"):
                self.chk.tie_break("correspondence:site", "import graph with relative paths %s: every file exists, yet the parser reports %s"
                                   % (graph, reply["parse"]["errors"][0]["msg"]), {"files": files})
            elif (pred["r"] == "cycle_reported") != cyc:
                self.chk.tie_break("correspondence:site", "import graph with relative paths %s: model predicts %s, implementation %s %s" % (graph, pred["r"], cls, det), {"files": files})

    def reserved_names(self):
        """programs that define the paths the assembler defines itself (`segments.<name>.start` / `.end`), as labels, constants,
        variables, through nested scopes, for the default and for declared segments: 'cannot redefine symbol', never a panic"""
        r = self.model.call({"cmd": "clash"})
        pred = {"diag": "diag:redefinition", "panic": "panic"}[r["r"]]
        for seg, decl in (("default", ""), ("a", '.define segment { name = "a" start = $1000 }\n')):
            for leaf in ("start", "end"):
                for body in ("%s: nop", ".const %s = 1", ".var %s = 1", "%s: { nop }"):
                    src = decl + "segments: { %s: { %s } }\nnop\n" % (seg, body % leaf)
                    reply, fails = self.case("reserved_names", {"main.asm": src})
                    self.expect("reserved_names", {"main.asm": src}, reply, fails, pred, "the program defines segments.%s.%s itself" % (seg, leaf))
        # not a clash: other names below `segments`, a segment that does not exist, uses of the assembler's symbols
        for src in ["segments: { default: { middle: nop } }\nlda segments.default.middle\n", "segments: { nosuch: { start: nop } }\n",
                    "lda segments.default.start\nlda segments.default.end\n", "segments: nop\n", "start: nop\nend: nop\ndefault: nop\n"]:
            reply, fails = self.case("reserved_names", {"main.asm": src})
            self.expect("reserved_names", {"main.asm": src}, reply, fails, "ok", "names near the assembler's own symbols")

    def listing_widths(self):
        """bytes per listing line, as configured in mos.toml ([formatting.listing] num-bytes-per-line): 0 included"""
        srcs = ["lda #1\n.byte 1,2,3,4,5,6,7,8,9,10\nl: jmp l\n", "nop\n", ".loop 20 { .word index }\n"]
        for nb in [0, 1, 2, 3, 8, 255, 65536]:
            for src in srcs:
                self.case("listing_width", {"main.asm": src}, stages=["codegen"], listing_bytes=nb)

    def listing_redefined_segments(self):
        """the same segment name defined more than once, with code before / between / after the definitions: source-map entries
        of the earlier incarnation can start inside the final range and be longer than what the final segment holds"""
        rng = self.rng
        bodies = ["nop", "lda $1234", "lda #1", ".byte 1,2,3,4,5", "jmp $1000\nnop", ".word $1234\n.byte 9", ""]
        n = 0
        for b1 in bodies:
            for b2 in bodies:
                for (s1, s2) in [("$1000", "$1000"), ("$1000", "$1001"), ("$1001", "$1000"), ("$1000", "$0fff"), ("$1000", "$1002")]:
                    if rng.random() < 0.45:
                        continue
                    how = rng.choice(["define", "define", "bank"])
                    if how == "define":
                        src = '.define segment { name = "a" start = %s }\n%s\n.define segment { name = "a" start = %s }\n%s\n' % (s1, b1, s2, b2)
                    else:
                        src = '.define segment { name = "a" start = %s }\n%s\n.define bank { name = "a" create-segment = true }\n.segment "a" { %s }\n' % (s1, b1, b2.replace("\n", " "))
                    self.case("listing_redefined", {"main.asm": src}, stages=["codegen"])
                    n += 1
        self.bump("listing_redefined_cases", n)

    def macro_graphs(self, n):
        rng = self.rng
        for i in range(n):
            nm = rng.randrange(1, 5)
            cyclic = rng.random() < 0.3
            lines = []
            for k in range(1, nm + 1):
                callees = [j for j in range(1, nm + 1) if (j > k or cyclic and rng.random() < 0.5) and rng.random() < 0.5]
                body = " ".join("m%d()" % j for j in callees) + " nop"
                lines.append(".macro m%d() { %s }" % (k, body))
            lines += ["m%d()" % rng.randrange(1, nm + 1) for _ in range(rng.randrange(0, 3))]
            files = {"main.asm": "\n".join(lines) + "\n"}
            g = self.known.macro_graph(files)
            pred = self.model.call({"cmd": "depth", "kind": "macro", "graph": g})
            self.bump("macro:" + pred["r"])
            reply, fails = self.case("macro_graph", files, stages=["codegen"])
            self.expect("macro_graph", files, reply, fails,
                        {"unbounded": "abort", "cycle_reported": "diag:nested_too_deep"}.get(pred["r"], "ok"), "macro invocation graph %s" % g)
            # greedy analysis also expands uninvoked macros; a cycle there is not followed past the limit, silently
            self.case("macro_graph_greedy", files, stages=["greedy", "format"])
        # recursion that the program bounds itself
        for d in [1, 5, 20, 30, 40]:
            files = {"main.asm": ".macro m(n) { .if n > 0 { m(n - 1) } }\nm(%d)\n" % d}
            r = self.model.call({"cmd": "enter", "kind": "codegen", "depth": 2 * d + 1})   # m, .if, m, .if, ..., m
            reply, fails = self.case("macro_countdown", files)
            self.expect("macro_countdown", files, reply, fails, "ok" if r["r"] == "ok" else "diag:nested_too_deep", "macro counting down from %d" % d)

    def nesting(self):
        c = self.model.call({"cmd": "consts"})
        lim = int(c["parser_nesting_limit"] or 10 ** 9)
        for d in [1, 10, lim // 2, lim - 1, lim, lim + 1, lim + 6, 300, 3000]:
            for shape in ("braces", "parens", "calls", "ifs", "labels"):
                if d > lim + 6 and shape in ("ifs", "labels"):
                    continue
                src = {"braces": "{ " * d + "nop" + " }" * d, "parens": ".byte " + "(" * d + "1" + ")" * d,
                       "calls": ".byte " + "defined(" * d + "x" + ")" * d, "ifs": ".if 1 { " * d + "nop" + " }" * d,
                       "labels": "".join("l%d: { " % i for i in range(d)) + "nop" + " }" * d}[shape] + "\n"
                # what the guards count: containers around the innermost text (parser) / tokens that contain tokens (code generator)
                rp = self.model.call({"cmd": "enter", "kind": "parser", "depth": d - 1})
                rc = self.model.call({"cmd": "enter", "kind": "codegen", "depth": d - 1}) if shape in ("braces", "ifs", "labels") else {"r": "ok"}
                pred = "diag:parse" if rp["r"] != "ok" else ("diag:nested_too_deep" if rc["r"] != "ok" else "ok")
                reply, fails = self.case("nesting:" + shape, {"main.asm": src})
                self.expect("nesting", {"main.asm": src}, reply, fails, pred, "%s nested %d deep" % (shape, d))
        # a syntax error at the bottom of nested parentheses / argument lists: one attempt per level, not 2^n
        for d in [10, 20, 40, 60]:
            for src in [".byte " + "(" * d + "@" + ")" * d, "lda " + "(" * d + "@" + ")" * d + ",x", ".if " + "defined(" * d + "@" + ")" * d + " { nop }",
                        ".byte !-" + "(" * d + "1" + ")" * d + " + !" + "(" * d + "@"]:
                reply, fails = self.case("nesting:failing", {"main.asm": src + "\n"}, stages=["codegen"])
                self.expect("nesting", {"main.asm": src}, reply, fails, "diag:parse", "syntax error inside %d nested parentheses" % d)

    def greedy_templates(self):
        for body in [".if 0 { nop } else { lda #1 }\nl: nop", ".if 1 { nop } else { .if 0 { nop }\nnop }\nnop",
                     ".if 0 { .if 0 { nop }\nnop }\nnop", ".loop 2 { .if 0 { nop }\nnop }", "{ .if 0 { l2: nop }\njmp l2 }"]:
            files = {"main.asm": ".macro m() {\n%s\n}\n" % body}
            reply, fails = self.case("greedy_nested_dummy", files)
            if reply is not None and not reply.get("crash"):
                cls, _ = stage_outcome(reply.get("greedy"))
                if cls == "panic":
                    self.chk.tie_break("correspondence:site", "model: the enclosing dummy segment survives (no panic); implementation panics", {"files": files})

    def general_streams(self, n_prog, n_mut, n_rand):
        rng = self.rng
        seeds = []
        for i in range(n_prog):
            src = gen_program(rng)
            seeds.append(src)
            self.case("grammar", {"main.asm": src}, sample=(i < 2))
        cdir = os.path.join(common.ROOT, "corpus", "C06")
        corpus = [open(os.path.join(cdir, f), encoding="utf-8").read() for f in sorted(os.listdir(cdir)) if f.endswith(".asm")]
        for i in range(n_mut):
            base = rng.choice(seeds + corpus)
            src = mutate(rng, base)
            if self.known.slow_loop({"main.asm": src}):
                self.bump("mutants_with_unbounded_loop_count_skipped")
                continue
            self.case("mutated", {"main.asm": src}, sample=(i < 2))
        for i in range(n_rand):
            ln = rng.choice([1, 2, 5, 20, 80])
            if rng.random() < 0.5:
                src = "".join(rng.choice(MUT_ALPHABET) for _ in range(ln))
            else:
                src = bytes(rng.randrange(256) for _ in range(ln)).decode("latin-1")
            if self.known.slow_loop({"main.asm": src}):
                continue
            self.case("random_text", {"main.asm": src})

    # ---- the real binary ------------------------------------------------------------------------------
    def real_builds(self, mos, n):
        rng = self.rng
        workdir = os.path.join(common.CACHE, "work")
        os.makedirs(workdir, exist_ok=True)
        cdir = os.path.join(common.ROOT, "corpus", "C06")
        cases = []
        for f in sorted(os.listdir(cdir)):
            p = os.path.join(cdir, f)
            if f.endswith(".asm"):
                cases.append(("corpus:" + f, {"main.asm": open(p, "rb").read()}))
            elif os.path.isdir(p):
                cases.append(("corpus:" + f, {g: open(os.path.join(p, g), "rb").read() for g in sorted(os.listdir(p))}))
        for i in range(n):
            ln = rng.choice([1, 3, 10, 40, 200])
            r = rng.random()
            if r < 0.4:
                data = bytes(rng.randrange(256) for _ in range(ln))                       # mostly invalid UTF-8
            elif r < 0.6:
                data = gen_program(rng).encode() + bytes([rng.choice([0xff, 0xc0, 0x80, 0xfe])]) + b"\nnop\n"
            elif r < 0.8:
                m = mutate(rng, gen_program(rng))
                data = (m if not self.known.slow_loop({"main.asm": m}) else gen_program(rng)).encode("utf-8", "surrogatepass")
            else:
                data = gen_program(rng).encode()
            files = {"main.asm": data}
            if rng.random() < 0.2:
                files["main.asm"] = b'.import * from "other.asm"\n' + data
                if rng.random() < 0.5:
                    files["other.asm"] = bytes(rng.randrange(256) for _ in range(10))
            cases.append(("real", files))
        for k, src in enumerate(['.define segment { name = "a" start = $10000 }\n', '.define segment { name = "a" start = $ffff }\n',
                                 '.define segment { name = "a" start = $ffff }\nnop\n', '.define segment { name = "a" start = $ffff }\nnop\nnop\n',
                                 '.define segment { name = "a" start = $fffe pc = $ffff }\nnop\n', '* = $10000\n', '* = $ffff\nnop\n', '* = $10000\nnop\n',
                                 '.define segment { name = "a" start = 0 }\n', '.define bank { name = "b" }\n.define segment { name = "a" start = $10000 bank = "b" }\n',
                                 'segments: { default: { start: nop } }\n']):
            cases.append(("real_edges:%d" % k, {"main.asm": src.encode()}))
        for stream, files in cases:
            # inputs the probe can take (valid UTF-8) are screened through H1 first: the real binary has no observer
            try:
                texts = {k: v.decode("utf-8") for k, v in files.items()}
            except UnicodeDecodeError:
                texts = None
            if texts is not None:
                r = self.child.run(texts, stages=["codegen"])
                if r.get("crash") or r.get("hang") or stage_outcome(r.get("codegen"))[0] in ("panic", "no_convergence_within_watch"):
                    continue        # already reported (or known) through the probe streams
            d = tempfile.mkdtemp(prefix="c06_", dir=workdir)
            try:
                for k, v in files.items():
                    with open(os.path.join(d, k), "wb") as f:
                        f.write(v)
                with open(os.path.join(d, "mos.toml"), "w") as f:
                    f.write('[build]\nentry = "main.asm"\nlisting = true\n[formatting.listing]\nnum-bytes-per-line = %d\n' % rng.choice([0, 1, 8, 8, 8, 16]))
                for cmd in (["build"], ["format"]):
                    t0 = time.time()
                    try:
                        p = subprocess.run([mos, "--error-style", "Short"] + cmd, cwd=d, stdout=subprocess.PIPE, stderr=subprocess.STDOUT, env=common.ENV, timeout=60)
                        rc, out = p.returncode, common.clean(p.stdout.decode("utf-8", "replace"))
                    except subprocess.TimeoutExpired:
                        rc, out = "timeout", ""
                    self.chk.count(1, 1)
                    self.bump("real:%s:%s" % (cmd[0], rc))
                    rep = {"stream": stream, "files": {k: v.hex() for k, v in files.items()}, "cmd": cmd, "hex": True}
                    if rc == "timeout":
                        self.chk.oracle_failure(None, "[%s] `mos %s` did not return within 60 s" % (stream, cmd[0]), rep)
                    elif rc not in (0, 1) or "panicked at" in out or "RUST_BACKTRACE" in out:
                        self.chk.oracle_failure(None, "[%s] `mos %s` crashed: exit status %s: %s" % (stream, cmd[0], rc, out[-300:]), rep)
                    elif rc == 1 and not out.strip():
                        self.chk.oracle_failure(None, "[%s] `mos %s` failed without any diagnostic" % (stream, cmd[0]), rep)
            finally:
                shutil.rmtree(d, ignore_errors=True)

    def corpus(self):
        cdir = os.path.join(common.ROOT, "corpus", "C06")
        for f in sorted(os.listdir(cdir)):
            p = os.path.join(cdir, f)
            if f.endswith(".asm"):
                files = {"main.asm": open(p, encoding="utf-8").read()}
            elif os.path.isdir(p):
                files = {g: open(os.path.join(p, g), encoding="utf-8").read() for g in sorted(os.listdir(p))}
            else:
                continue
            reply, fails = self.case("corpus:" + f, files, sample=f.startswith("nonterminating_gray"))
            if f.startswith(("nonterminating_gray", "cyclic_segments")) and reply is not None and not reply.get("crash") and not reply.get("hang"):
                # programs whose passes never agree: the loop must be ended by its cap (C06_pass_loop_terminates) with the
                # project-level diagnostic 'did not converge', in normal and in greedy mode; for the Gray-code program the
                # loop state provably recurs (H1 digest repeats), i.e. without the cap it is assembled forever
                for st in ("codegen", "greedy"):
                    x = reply.get(st, {})
                    msgs = [e["msg"] for e in x.get("errors", [])]
                    if stage_outcome(x)[0] != "diag" or not any("did not converge" in m for m in msgs):
                        self.chk.oracle_failure(None, "[corpus:%s] %s: a program whose passes never agree does not end with the 'did not converge' diagnostic: %s"
                                                % (f, st, stage_outcome(x)), {"files": files})
                    elif f.startswith("nonterminating_gray") and not x.get("repeat"):
                        self.chk.tie_break("corpus:nonterminating", "the recorded non-terminating program no longer shows a recurring loop state", {"files": files})
                    elif x.get("repeat"):
                        self.bump("nonterminating_witness_period", x["repeat"]["again"] - x["repeat"]["first"])


def run(chk):
    R = Run(chk)
    thorough = chk.tier == "thorough"
    common.translate_for(chk, ["c06loop", "c06sites", "evaluator"])
    chk.proof = common.prove("C06")
    R.child = Child(common.build_probe("harness_c06", "c06probe"))
    R.model = Proc([common.build_model("c06")])
    R.known = Known(R.model)
    mos = common.build_mos()
    consts = R.model.call({"cmd": "consts"})
    R.cap = consts.get("max_iterations")
    R.cap = int(R.cap) if R.cap is not None else None
    if consts.get("max_iterations") is None:
        chk.tie_break("model:cap", "the pass loop has no cap (MAX_ITERATIONS = usize::MAX): termination is not provable", {})
    R.corpus()
    R.sweep_sites(thorough)
    R.import_graphs(400 if thorough else 60)
    R.import_paths(300 if thorough else 50)
    R.listing_redefined_segments()
    R.listing_widths()
    R.reserved_names()
    R.macro_graphs(200 if thorough else 30)
    R.nesting()
    R.greedy_templates()
    R.general_streams(*( (1500, 3000, 1500) if thorough else (150, 300, 150)))
    R.real_builds(mos, 150 if thorough else 25)
    R.child.stop()
    R.model.stop()
    chk.cov["rule"] = ("per input project (1-4 files): parse, codegen (normal and greedy), bank merge, listing, format in a child process with hook H1 "
                       "watching the pass loop; streams: corpus witnesses; integer sweep {0,-1,1,255,256,65535,65536,2^31,2^63-1,2^63,2^64,20+ digits,...} "
                       "through binary operators, literals, unary minus, .align, `* =`, segment start/pc, bank size/fill, .loop; names with periods; import "
                       "graphs over <= 4 files with cycles and missing files; macro invocation graphs; nesting depths; greedy-only templates; grammar-generated "
                       "programs; 1-2 character mutations; random text; random bytes / invalid UTF-8 through the real `mos build` and `mos format`. "
                       "distinct = distinct (stream, files, options); non-trivial = every case counts (each runs >= 2 stages end to end)")
    chk.extra["distribution"] = R.dist
    chk.extra["model_constants"] = consts
    chk.assumptions = [
        "stack depth and wall-clock are runtime behaviour: the model expresses them as recursion depth (import / macro graphs, nesting) and iteration / pass counts",
        "the evaluator model computes in Z; C06_eval_in_i64 proves that every number it returns fits i64 when the environment's numbers do (env_i64: the Rust type of symbol values and of the pc)",
        "C06_emit_token_total / C06_codegen_never_panics (over C02's model/Asm.v) hold for tokens of tok_ok: data values of <= 8 bytes, `.text` of a literal shorter than 2^32 bytes; the model can build byte strings of 2^64 - 2^17 bytes or more, for which its `emit` panics (C06_emit_panics_only_if), a Vec cannot",
        "no Known_* class is left: every panic / abort / hang on any generated input is a violation",
        "random mutants whose `.loop` count is not a literal expression <= 4096 are not run (tens of thousands of iterations are legal but take minutes in a debug build); the loop budget itself is tested by the site sweep",
        "a hang verdict is only given by hook H1 (more than %d distinct passes) or by the request watchdog of %d s (>= 1000x the normal request time)" % (CAP_WATCH, int(REQ_TIMEOUT)),
    ]
    return chk.finish(extra_trusted=["translate/t_c06loop.py, translate/t_c06sites.py, translate/t_evaluator.py (recognise guarded / unguarded shapes)",
                                     "hook H1 (mos-core/src/codegen/mod.rs, cfg mos_verif): per-pass digests; harness_c06/c06probe; extract/driver_c06.ml"])


def replay(chk, path):
    obj = json.load(open(path))
    rep = obj.get("replay", obj)
    files = rep.get("files", {})
    if rep.get("hex"):
        print(json.dumps({"note": "real-binary case: write the files (hex) into a directory with mos.toml and run `mos build`", "files": files, "recorded": rep}, indent=1))
        return 0
    child = Child(common.build_probe("harness_c06", "c06probe"))
    req = {k: v for k, v in (rep.get("request") or {}).items() if not k.startswith("_")}
    r = child.run(files, timeout=HANG_WATCHDOG * 2, **req)
    child.stop()
    out = {"files": files}
    if r.get("crash") or r.get("hang"):
        out["observed"] = r
    else:
        out["observed"] = {"parse": r.get("parse"), "codegen": stage_outcome(r.get("codegen")), "greedy": stage_outcome(r.get("greedy")),
                           "format": r.get("format"), "passes": len((r.get("codegen") or {}).get("passes", []))}
    out["recorded"] = {k: rep.get(k) for k in ("observed", "kind", "predicted", "implementation", "stream")}
    print(json.dumps(out, indent=1, ensure_ascii=False, default=str))
    return 0

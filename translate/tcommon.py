"""Shared helpers for the Rust-fragment -> Gallina translators.

Each translator re-reads its fragment of /repo on every run, checks a shape
grammar and writes coq/theories/Gen/<X>.v only when the content changed.  A
fragment whose shape is not recognised raises ShapeError: the tie for the
properties served by that translator is then reported broken by ./check.
"""
import hashlib
import os
import re

REPO = os.environ.get("MOS_REPO", "/repo")
ROOT = os.path.dirname(os.path.dirname(os.path.abspath(__file__)))
GEN = os.path.join(os.environ.get("VERIF_OUT", ROOT), "coq", "theories", "Gen")


class ShapeError(Exception):
    pass


def read(rel):
    with open(os.path.join(REPO, rel), encoding="utf-8") as f:
        return f.read()


def strip_comments(src):
    # remove // line comments and /* */ block comments (no nesting needed for the fragments used)
    src = re.sub(r"/\*.*?\*/", " ", src, flags=re.S)
    src = re.sub(r"//[^\n]*", " ", src)
    return src


def write_if_changed(name, text):
    os.makedirs(GEN, exist_ok=True)
    path = os.path.join(GEN, name)
    old = None
    if os.path.exists(path):
        with open(path, encoding="utf-8") as f:
            old = f.read()
    if old != text:
        with open(path, "w", encoding="utf-8") as f:
            f.write(text)
    return hashlib.sha256(text.encode()).hexdigest()[:16]


def between(src, start_pat, end_pat, what):
    m = re.search(start_pat, src, re.S)
    if not m:
        raise ShapeError("%s: start pattern not found" % what)
    rest = src[m.end():]
    e = re.search(end_pat, rest, re.S)
    if not e:
        raise ShapeError("%s: end pattern not found" % what)
    return rest[: e.start()]


def balanced_block(src, open_idx):
    """src[open_idx] must be '{'; returns text inside the matching braces."""
    assert src[open_idx] == "{"
    depth = 0
    for i in range(open_idx, len(src)):
        c = src[i]
        if c == "{":
            depth += 1
        elif c == "}":
            depth -= 1
            if depth == 0:
                return src[open_idx + 1 : i]
    raise ShapeError("unbalanced braces")

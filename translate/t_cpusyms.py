"""T7: the tabular parts of the unit-test runner -> Gen/CpuSyms.v
  * symbols.rs::ensure_cpu_symbols: the scope names (`cpu`, `cpu.flags`), which register each `cpu.<r>` symbol shows,
    and the mask of every `cpu.flags.<f>` symbol
  * test_runner/mod.rs::registers(): which emulator getter feeds each register key
  * test_runner/mod.rs::execute_instruction: order of the phases (traces, assertions, BRK test, execute), the byte
    that ends a test, the condition under which an assertion fails
  * memory_accessor.rs: how ram16() combines its two bytes
  * commands/test.rs + main.rs: the exit status
"""
import re
from tcommon import read, strip_comments, write_if_changed, between, ShapeError

GETTERS = {"get_stack_pointer": "RegSP", "get_accumulator": "RegA", "get_x_register": "RegX", "get_y_register": "RegY"}


def text(s):
    return "[" + "; ".join(str(ord(c)) for c in s) + "]%N"


def translate():
    sym = strip_comments(read("mos-core/src/codegen/symbols.rs"))
    body = between(sym, r"pub fn ensure_cpu_symbols\(&mut self, registers: HashMap<String, i64>, flags: u8\) \{", r"\n    \}\n\}",
                   "ensure_cpu_symbols")
    flat = re.sub(r"\s+", " ", body)
    m = re.search(r'let cpu_nx = self\.ensure_index\(root, "(\w+)"\); let cpu_flags_nx = self\.ensure_index\(cpu_nx, "(\w+)"\);', flat)
    if not m:
        raise ShapeError("ensure_cpu_symbols: scope creation changed")
    cpu_name, flags_name = m.group(1), m.group(2)
    if "if let Some(symbol_nx) = self.try_index(parent_nx, id) { self.update_data(symbol_nx, symbol); } else { self.insert(parent_nx, id, symbol); }" not in flat:
        raise ShapeError("ensure_cpu_symbols: the add closure changed")
    calls = re.findall(r"add\( ?(\w+), \"(\w+)\", (.*?), SymbolType::(\w+),? ?\);", flat)
    regs, flags = [], []
    for parent, name, data, _ty in calls:
        if parent == "cpu_nx":
            mm = re.fullmatch(r'registers\.get\("(\w+)"\)', data.strip())
            if not mm:
                raise ShapeError("ensure_cpu_symbols: register symbol %s has unknown source %r" % (name, data))
            regs.append((name, mm.group(1)))
        elif parent == "cpu_flags_nx":
            mm = re.fullmatch(r"Some\(&\(\(flags & (\d+)\) as i64\)\)", data.strip())
            if not mm:
                raise ShapeError("ensure_cpu_symbols: flag symbol %s has unknown source %r" % (name, data))
            flags.append((name, int(mm.group(1))))
        else:
            raise ShapeError("ensure_cpu_symbols: unknown parent %s" % parent)
    if len(calls) != flat.count("add(") - 0 or not regs or not flags:
        raise ShapeError("ensure_cpu_symbols: %d add calls recognised of %d" % (len(calls), flat.count("add(")))

    tr = strip_comments(read("mos/src/test_runner/mod.rs"))
    rbody = re.sub(r"\s+", " ", between(tr, r"pub fn registers\(&self\) -> HashMap<String, i64> \{", r"\n    \}", "registers"))
    keys = dict(re.findall(r'r\.insert\("(\w+)"\.into\(\), self\.cpu\.(\w+)\(\) as i64\);', rbody))
    if len(keys) != rbody.count("r.insert("):
        raise ShapeError("registers(): unrecognised insert")
    reg_syms = []
    for name, key in regs:
        if key not in keys or keys[key] not in GETTERS:
            raise ShapeError("register key %s has no known getter" % key)
        reg_syms.append((name, GETTERS[keys[key]]))

    ex = between(tr, r"pub fn execute_instruction\(&mut self\) -> MosResult<ExecuteResult> \{", r"\n    pub fn registers", "execute_instruction")
    exf = re.sub(r"\s+", " ", ex)
    marks = [
        ("PhTraces", r"for element in self\.test_elements\.iter_mut\(\) \{ if let TestElement::Trace\(trace\) = element \{ if trace\.snapshot\.pc\.as_u16\(\) != pc \{ continue; \}"),
        ("PhAssertions", r"for element in self\.test_elements\.iter_mut\(\) \{ if let TestElement::Assertion\(assertion\) = element \{ if assertion\.snapshot\.pc\.as_u16\(\) != pc \{ continue; \}"),
        ("PhBrk", r"if self\.ram\.read\(\)\.unwrap\(\)\.ram\[self\.cpu\.get_program_counter\(\) as usize\] == (\d+) \{ return Ok\(ExecuteResult::TestSuccess\(self\.num_cycles\)\); \}"),
        ("PhExecute", r"let opcode = self\.ram\.read\(\)\.unwrap\(\)\.ram\[self\.cpu\.get_program_counter\(\) as usize\]; "
                      r"self\.cpu\.cycle\(self\.ram\.write\(\)\.unwrap\(\)\.deref_mut\(\)\); self\.num_cycles \+= 1 \+ self\.cpu\.get_remaining_cycles\(\) as usize; "
                      r"self\.cpu \.execute_instruction\(self\.ram\.write\(\)\.unwrap\(\)\.deref_mut\(\)\); "
                      r"match opcode \{ (0x[0-9a-fA-F]+) => self\.call_depth \+= 1, (0x[0-9a-fA-F]+) => self\.call_depth = self\.call_depth\.saturating_sub\(1\), _ => \{\} \} "
                      r"Ok\(ExecuteResult::Running\)"),
    ]
    pos = []
    brk = None
    for name, pat in marks:
        mm = re.search(pat, exf)
        if not mm:
            raise ShapeError("execute_instruction: phase %s not recognised" % name)
        if name == "PhBrk":
            brk = int(mm.group(1))
        if name == "PhExecute":
            jsr_op, rts_op = int(mm.group(1), 16), int(mm.group(2), 16)
        pos.append((mm.start(), name))
    order = [n for _, n in sorted(pos)]
    if "let pc = self.cpu.get_program_counter(); let registers = self.registers(); let flags = self.cpu.get_status_register();" not in exf:
        raise ShapeError("execute_instruction: pc/registers/flags are no longer read before the elements fire")
    if exf.count("self.test_elements") != 2 or "remove" in exf or "retain" in exf or "drain" in exf:
        raise ShapeError("execute_instruction: the element list is used in an unrecognised way")
    mm = re.search(r"if eval_result == Some\(SymbolData::Number\((\d+)\)\) \|\| eval_result\.is_none\(\) \{", exf)
    if not mm or ".evaluate_expression(&assertion.expr, false) .ok() .flatten();" not in exf:
        raise ShapeError("execute_instruction: the failure condition of an assertion changed")
    fail_value = int(mm.group(1))
    if "let message = assertion.failure_message.clone().unwrap_or_else(|| {" not in exf or \
            'format!("assertion failed: {}", expr)' not in exf or ".with_labels(vec![assertion.expr.span.to_label()]);" not in exf:
        raise ShapeError("execute_instruction: failure message/location changed")
    if "traces: self.formatted_traces.clone()," not in exf or "cpu: self.cpu.clone()," not in exf:
        raise ShapeError("execute_instruction: failure report changed")

    # step_over / step_out / run_until_return (used by the debug adapter)
    flat_tr = re.sub(r"\s+", " ", tr)
    so = re.search(r"pub fn step_over\(&mut self\) -> MosResult<ExecuteResult> \{ let opcode = self\.ram\.read\(\)\.unwrap\(\)\.ram\[self\.cpu\.get_program_counter\(\) as usize\]; "
                   r"match opcode \{ (0x[0-9a-fA-F]+) => \{ match self\.execute_instruction\(\)\? \{ ExecuteResult::Running => self\.run_until_return\(\), result => Ok\(result\), \} \} "
                   r"_ => self\.execute_instruction\(\), \} \}", flat_tr)
    if not so or int(so.group(1), 16) != jsr_op:
        raise ShapeError("step_over has an unrecognised shape")
    if not re.search(r"pub fn step_out\(&mut self\) -> MosResult<ExecuteResult> \{ if self\.call_depth == 0 \{ return Ok\(ExecuteResult::Running\); \} self\.run_until_return\(\) \}", flat_tr):
        raise ShapeError("step_out has an unrecognised shape")
    ru = re.search(r"fn run_until_return\(&mut self\) -> MosResult<ExecuteResult> \{ let mut nested_calls = 0; loop \{ "
                   r"let opcode = self\.ram\.read\(\)\.unwrap\(\)\.ram\[self\.cpu\.get_program_counter\(\) as usize\]; "
                   r"match self\.execute_instruction\(\)\? \{ ExecuteResult::Running => \{\} result => \{ return Ok\(result\); \} \} "
                   r"match opcode \{ (0x[0-9a-fA-F]+) => nested_calls \+= 1, (0x[0-9a-fA-F]+) if nested_calls == 0 => return Ok\(ExecuteResult::Running\), "
                   r"(0x[0-9a-fA-F]+) => nested_calls -= 1, _ => \{\} \} \} \}", flat_tr)
    if not ru or [int(g, 16) for g in ru.groups()] != [jsr_op, rts_op, rts_op]:
        raise ShapeError("run_until_return has an unrecognised shape")
    uses = flat_tr.replace("pub fn verif_call_depth(&self) -> usize { self.call_depth }", "")
    if "call_depth: 0," not in flat_tr or uses.count("self.call_depth") != 4:
        raise ShapeError("call_depth is used in an unrecognised way")

    ma = re.sub(r"\s+", " ", strip_comments(read("mos/src/memory_accessor.rs")))
    mm = re.search(r"let lo = bytes\.first\(\); let hi = bytes\.get\(1\); match \(lo, hi\) \{ \(Some\(lo\), Some\(hi\)\) => Some\((\d+) \* \(\*(\w+) as i64\) \+ \(\*(\w+) as i64\)\), _ => None, \}", ma)
    if not mm:
        raise ShapeError("memory_accessor: ram16 byte combination changed")
    weight, hi_name, lo_name = int(mm.group(1)), mm.group(2), mm.group(3)
    if {hi_name, lo_name} != {"hi", "lo"}:
        raise ShapeError("memory_accessor: ram16 operands")
    mr = re.search(r"let val = address\.and_then\(\|a\| \{ let len = if self\.word \{ (\d+) \} else \{ (\d+) \}; "
                   r"let bytes = self\.memory_accessor\.lock\(\)\.unwrap\(\)\.read\(a as u(\d+), len\); if self\.word \{", ma)
    if not mr or "bytes.first().map(|b| *b as i64)" not in ma:
        raise ShapeError("memory_accessor: the read of ram()/ram16() changed (length, address cast or an added guard)")
    word_len, byte_len, addr_bits = int(mr.group(1)), int(mr.group(2)), int(mr.group(3))
    # the accessor of the test runner: which bytes a read returns
    rd = re.search(r"impl MemoryAccessor for TestRunnerMemoryAccessor \{ fn read\(&mut self, address: u16, len: usize\) -> Vec<u8> \{ "
                   r"let ram = self\.ram\.read\(\)\.unwrap\(\); let start = address as usize; let end = \(start \+ len\)\.min\(ram\.ram\.len\(\)\); "
                   r"ram\.ram\[start\.\.end\]\.to_vec\(\) \}", flat_tr)
    if not rd:
        raise ShapeError("TestRunnerMemoryAccessor::read has an unrecognised shape")
    sz = re.search(r"fn new\(\) -> Self \{ Self \{ ram: vec!\[0; (\d+)\], \} \}", flat_tr)
    if not sz:
        raise ShapeError("BasicRam::new has an unrecognised shape")
    ram_size = int(sz.group(1))
    names = re.findall(r'ctx\.register_fn\( "(\w+)", RamFn \{ memory_accessor(?:: memory_accessor\.clone\(\))?, word: (true|false), \}, \);', ma)
    if sorted(names) != [("ram", "false"), ("ram16", "true")]:
        raise ShapeError("memory_accessor: registered functions changed: %s" % names)

    tc = re.sub(r"\s+", " ", strip_comments(read("mos/src/commands/test.rs")))
    mm = re.search(r"if !failed\.is_empty\(\) \{ Ok\((\d+)\) \} else \{ Ok\((\d+)\) \} \}", tc)
    if not mm:
        raise ShapeError("commands/test.rs: exit status changed")
    code_failed, code_ok = int(mm.group(1)), int(mm.group(2))
    if "Some(failure) => { failed.push((test_case.to_string(), failure));" not in tc or "None => { num_passed += 1;" not in tc:
        raise ShapeError("commands/test.rs: bookkeeping of failed tests changed")
    if "ExecuteResult::TestFailed(num_cycles, failure) => (num_cycles, Some(failure)), ExecuteResult::TestSuccess(num_cycles) => (num_cycles, None)," not in tc:
        raise ShapeError("commands/test.rs: result mapping changed")
    mn = re.sub(r"\s+", " ", strip_comments(read("mos/src/main.rs")))
    mm = re.search(r"let exit_code = test_command\(args, &root, &cfg\)\?; if exit_code > (\d+) \{ std::process::exit\(exit_code\); \} else \{ Ok\(\(\)\) \}", mn)
    if not mm:
        raise ShapeError("main.rs: exit status handling changed")
    exit_gt = int(mm.group(1))

    out = ["(* GENERATED by translate/t_cpusyms.py from mos-core/src/codegen/symbols.rs, mos/src/test_runner/mod.rs,",
           "   mos/src/memory_accessor.rs, mos/src/commands/test.rs, mos/src/main.rs. DO NOT EDIT. *)",
           "From Coq Require Import List NArith ZArith.", "Import ListNotations.", "Open Scope Z_scope.",
           "Inductive creg := RegSP | RegA | RegX | RegY.",
           "Definition cpu_scope_name : list N := %s." % text(cpu_name),
           "Definition flags_scope_name : list N := %s." % text(flags_name),
           "Definition cpu_reg_syms : list (list N * creg) := [%s]." % "; ".join("(%s, %s)" % (text(n), g) for n, g in reg_syms),
           "Definition cpu_flag_syms : list (list N * Z) := [%s]." % "; ".join("(%s, %d)" % (text(n), v) for n, v in flags),
           "Inductive phase := PhTraces | PhAssertions | PhBrk | PhExecute.",
           "Definition phase_order : list phase := [%s]." % "; ".join(order),
           "Definition end_of_test_opcode : Z := %d." % brk,
           "Definition assertion_fail_value : Z := %d." % fail_value,
           "(* the opcodes the runner counts as opening / closing a subroutine call *)",
           "Definition jsr_opcode : Z := %d." % jsr_op,
           "Definition rts_opcode : Z := %d." % rts_op,
           "Definition ram16_combine (lo hi : Z) : Z := %d * %s + %s." % (weight, hi_name, lo_name),
           "(* RamFn::apply / TestRunnerMemoryAccessor::read / BasicRam::new: lengths, address cast, size of the array *)",
           "Definition ram_word_len : Z := %d." % word_len,
           "Definition ram_byte_len : Z := %d." % byte_len,
           "Definition ram_address_space : Z := %d." % (2 ** addr_bits),
           "Definition ram_size : Z := %d." % ram_size,
           "Definition fn_ram : list N := %s." % text("ram"),
           "Definition fn_ram16 : list N := %s." % text("ram16"),
           "Definition exit_code_failed : Z := %d." % code_failed,
           "Definition exit_code_ok : Z := %d." % code_ok,
           "(* main.rs: the process exits with the code when it is greater than this, else with 0 *)",
           "Definition exit_code_threshold : Z := %d." % exit_gt]
    fp = write_if_changed("CpuSyms.v", "\n".join(out) + "\n")
    return {"file": "Gen/CpuSyms.v", "fingerprint": fp, "regs": reg_syms, "flags": flags, "phases": order}


if __name__ == "__main__":
    print(translate())

"""T3: evaluator.rs -> Gen/BinOps.v
  * BinaryOp::apply_i64 arms (a small expression translator)
  * BinaryOp::try_apply_str arms
  * order in which the NOT / NEG factor flags are applied
  * the low/high byte modifier formulas
  * Number::value (ast.rs): the two keyword literals and from_str_radix
"""
import re
from tcommon import read, strip_comments, write_if_changed, between, ShapeError

OPS = ["Add", "Sub", "Mul", "Div", "Mod", "Shl", "Shr", "Xor", "Eq", "Ne", "Gt", "GtEq", "Lt", "LtEq", "And", "Or"]
ARITH = {"+": "i64_add", "-": "i64_sub", "*": "i64_mul", "/": "i64_div", "%": "i64_rem", "<<": "i64_shl", ">>": "i64_shr", "^": "i64_xor"}
CHECKED = {"add": "i64_checked_add", "sub": "i64_checked_sub", "mul": "i64_checked_mul", "div": "i64_checked_div", "rem": "i64_checked_rem"}
CMPS = {"==": "Z.eqb lhs rhs", "!=": "negb (Z.eqb lhs rhs)", ">": "Z.ltb rhs lhs", ">=": "Z.leb rhs lhs",
        "<": "Z.ltb lhs rhs", "<=": "Z.leb lhs rhs"}


def tr(e):
    e = re.sub(r"\s+", " ", e.strip().rstrip(",").strip())
    m = re.fullmatch(r"match rhs \{ 0 => (-?\d+), _ => (.*?),? \}", e)
    if m:
        return "(if Z.eqb rhs 0 then Val (%s) else %s)" % (m.group(1), tr(m.group(2)))
    m = re.fullmatch(r"match rhs \{ 0 => Some\((-?\d+)\), _ => (.*?),? \}", e)
    if m:
        return "(if Z.eqb rhs 0 then Val (%s) else %s)" % (m.group(1), tr(m.group(2)))
    # checked arithmetic: `None` is turned into a diagnostic by the caller (Ovf in the model)
    m = re.fullmatch(r"lhs\.checked_(add|sub|mul|div|rem)\(rhs\)", e)
    if m:
        return "%s lhs rhs" % CHECKED[m.group(1)]
    m = re.fullmatch(r"u32::try_from\(rhs\)\.ok\(\)\.and_then\(\|rhs\| lhs\.checked_(shl|shr)\(rhs\)\)", e)
    if m:
        return "i64_checked_%s lhs rhs" % m.group(1)
    m = re.fullmatch(r"Some\((.*)\)", e)
    if m:
        inner = m.group(1).strip()
        # (an unchecked operator inside Some(..) is translated as what it is: it can panic)
        if re.fullmatch(r"(lhs|rhs) (\+|-|\*|/|%|<<|>>|\^) (lhs|rhs)", inner) or re.fullmatch(r"\(.*\) as i64", inner):
            return tr(inner)
        raise ShapeError("apply_i64: cannot translate Some(%r)" % inner)
    m = re.fullmatch(r"\((.*)\) as i64", e)
    if m:
        c = m.group(1).strip()
        m2 = re.fullmatch(r"lhs (==|!=|>=|<=|>|<) rhs", c)
        if m2:
            return "Val (b2z (%s))" % CMPS[m2.group(1)]
        m2 = re.fullmatch(r"lhs != 0 (&&|\|\|) rhs != 0", c)
        if m2:
            return "Val (b2z (%s (negb (Z.eqb lhs 0)) (negb (Z.eqb rhs 0))))" % ("andb" if m2.group(1) == "&&" else "orb")
        raise ShapeError("apply_i64: cannot translate condition %r" % c)
    m = re.fullmatch(r"(lhs|rhs) (\+|-|\*|/|%|<<|>>|\^) (lhs|rhs)", e)
    if m:
        return "%s %s %s" % (ARITH[m.group(2)], m.group(1), m.group(3))
    raise ShapeError("apply_i64: cannot translate %r" % e)


def translate():
    src = strip_comments(read("mos-core/src/codegen/evaluator.rs"))
    m = re.search(r"fn apply_i64\(&self, lhs: i64, rhs: i64\) -> (?:i64|Option<i64>) \{\s*match self \{(.*?)\n        \}\n    \}", src, re.S)
    if not m:
        raise ShapeError("apply_i64 not found")
    arms = [a for a in re.split(r"\n\s*BinaryOp::", "\n" + m.group(1)) if a.strip()]
    out_arms = {}
    for a in arms:
        name, rhs = a.split("=>", 1)
        name = name.strip()
        if name not in OPS:
            raise ShapeError("apply_i64: unknown operator %r" % name)
        out_arms[name] = tr(rhs)
    if sorted(out_arms) != sorted(OPS):
        raise ShapeError("apply_i64: operator set changed: %s" % sorted(out_arms))
    m = re.search(r"fn try_apply_str\(&self, lhs: String, rhs: String\) -> Option<SymbolData> \{\s*match self \{(.*?)\n        \}\n    \}", src, re.S)
    if not m:
        raise ShapeError("try_apply_str not found")
    sarms = {}
    for a in [a for a in re.split(r"\n\s*(?=BinaryOp::|_ =>)", m.group(1)) if a.strip()]:
        name, rhs = a.split("=>", 1)
        name = name.strip().replace("BinaryOp::", "")
        rhs = re.sub(r"\s+", " ", rhs.strip().rstrip(","))
        if rhs == "Some((lhs + rhs.as_str()).into())":
            sarms[name] = "Some (SStr (lhs ++ rhs))"
        elif rhs == "Some((lhs == rhs).into())":
            sarms[name] = "Some (SNum (b2z (text_eqb lhs rhs)))"
        elif rhs == "Some((lhs != rhs).into())":
            sarms[name] = "Some (SNum (b2z (negb (text_eqb lhs rhs))))"
        elif name == "_" and rhs == "None":
            pass
        else:
            raise ShapeError("try_apply_str: cannot translate arm %s => %s" % (name, rhs))
    # flag order
    ev = between(src, r"Expression::Factor \{ factor, flags, \.\. \} => \{", r"Expression::BinaryExpression\(bin\) =>", "factor arm")
    flat = re.sub(r"\s+", " ", ev)
    not_pat = r"if flags\.contains\(ExpressionFactorFlags::NOT\) \{ if number == 0 \{ number = 1 \} else \{ number = 0 \} \}"
    neg_pat = r"if flags\.contains\(ExpressionFactorFlags::NEG\) \{ number = -number; \}"
    # checked variant: overflow (MIN) is reported as an evaluation error
    neg_checked_pat = (r"if flags\.contains\(ExpressionFactorFlags::NEG\) \{ number = match number\.checked_neg\(\) \{ "
                       r"Some\(negated\) => negated, None => \{ return self\.error\( factor\.span, format!\([^;]*\), \) \} \}; \}")
    mn, mg = re.search(not_pat, flat), re.search(neg_pat, flat)
    neg_checked = False
    if not mg:
        mg = re.search(neg_checked_pat, flat)
        neg_checked = bool(mg)
    if not mn or not mg:
        raise ShapeError("factor arm: NOT/NEG application has unrecognised shape")
    order = "[FNot; FNeg]" if mn.start() < mg.start() else "[FNeg; FNot]"
    # modifiers
    idv = re.sub(r"\s+", " ", between(src, r"ExpressionFactor::IdentifierValue \{ path, modifier \} => \{", r"ExpressionFactor::Number", "identifier arm"))
    ml = re.search(r"Some\(AddressModifier::LowByte\) => val & (\d+),", idv)
    mh = re.search(r"Some\(AddressModifier::HighByte\) => \(val >> (\d+)\) & (\d+),", idv)
    if not ml or not mh or not re.search(r"_ => \*val,", idv):
        raise ShapeError("identifier arm: modifier formulas have unrecognised shape")
    # Number::value
    ast = strip_comments(read("mos-core/src/parser/ast.rs"))
    nv = re.sub(r"\s+", " ", between(ast, r"pub fn value\(&self\) -> (?:i64|Option<i64>) \{", r"pub fn from_type", "Number::value"))
    m = re.search(r'match self\.data(\.to_lowercase\(\))?\.as_str\(\) \{ "true" => (\d+), "false" => (\d+), _ => i64::from_str_radix\(&self\.data, self\.radix\)\.ok\(\)\.unwrap\(\), \}', nv)
    lit_checked = False
    if not m:
        m = re.search(r'match self\.data(\.to_lowercase\(\))?\.as_str\(\) \{ "true" => Some\((\d+)\), "false" => Some\((\d+)\), _ => i64::from_str_radix\(&self\.data, self\.radix\)\.ok\(\), \}', nv)
        lit_checked = bool(m)
        if m:
            # the caller must turn None into an evaluation error
            fac = re.sub(r"\s+", " ", between(src, r"ExpressionFactor::Number \{ value: number, \.\. \} =>", r"ExpressionFactor::InterpolatedString", "number arm"))
            if not re.match(r" ?match number\.data\.value\(\) \{ Some\(value\) => Ok\(Some\(value\.into\(\)\)\), None => self\.error\( number\.span, format!\([^;]*\), \), \},? ?$", fac):
                raise ShapeError("number arm of evaluate_expression_factor has unrecognised shape: %s" % fac[:200])
    if not m:
        raise ShapeError("Number::value has unrecognised shape: %s" % nv[:200])
    kw_ci = bool(m.group(1))
    out = ["(* GENERATED by translate/t_evaluator.py from mos-core/src/codegen/evaluator.rs and parser/ast.rs. DO NOT EDIT. *)",
           "From Coq Require Import List NArith ZArith Bool.", "Import ListNotations.", "From Mos Require Import model.I64.", "Open Scope Z_scope.",
           "Inductive binop := " + " | ".join(OPS) + ".",
           "Definition all_binops : list binop := [" + "; ".join(OPS) + "].",
           "Definition apply_i64 (op : binop) (lhs rhs : Z) : res :=\n  match op with\n" +
           "\n".join("  | %s => %s" % (o, out_arms[o]) for o in OPS) + "\n  end.",
           "Inductive sval := SNum (z : Z) | SStr (s : list N).",
           "Definition try_apply_str (op : binop) (lhs rhs : list N) : option sval :=\n  match op with\n" +
           "\n".join("  | %s => %s" % (o, sarms[o]) for o in OPS if o in sarms) + "\n  | _ => None\n  end.",
           "Inductive fflag := FNot | FNeg.",
           "Definition flag_order : list fflag := %s." % order,
           "Definition low_byte_mask : Z := %s." % ml.group(1),
           "Definition high_byte_shift : Z := %s." % mh.group(1),
           "Definition high_byte_mask : Z := %s." % mh.group(2),
           "Definition true_value : Z := %s." % m.group(2),
           "Definition false_value : Z := %s." % m.group(3),
           "Definition neg_checked : bool := %s." % ("true" if neg_checked else "false"),
           "Definition literal_keywords_ignore_case : bool := %s." % ("true" if kw_ci else "false"),
           "Definition literal_overflow_is_error : bool := %s." % ("true" if lit_checked else "false")]
    fp = write_if_changed("BinOps.v", "\n".join(out) + "\n")
    return {"file": "Gen/BinOps.v", "fingerprint": fp, "operators": len(OPS)}


if __name__ == "__main__":
    print(translate())

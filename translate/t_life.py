"""T-life: how `mos lsp` is written at the places that decide its shutdown behaviour -> Gen/LifeSites.v   (property C20)

Re-reads from the Rust source, with shape checks:
  * mos/src/commands/lsp.rs     lsp_command: start the debug server, run the LSP, join the debug server
  * mos/src/lsp/mod.rs          the end of LspServer::start (unwrap of the shared context vs taking the connection out; whether the
                                Arc<Connection> -- a Sender to the stdio writer -- is dropped before IoThreads::join), main_loop,
                                the "shutdown" arm of handle_message, invoke_shutdown_handlers, add_shutdown_handler
  * mos/src/debugger/mod.rs     DebugServer::start (thread loop on the flag), DebugServer::join (plain join vs flag + wake-up loop),
                                DebugSession::start (accept before / after add_shutdown_handler; the select's shutdown arm)
  * mos/src/debugger/connection.rs   DebugConnection::tcp = bind + blocking accept
and a census of the holders of the LSP connection (a long-lived clone of the Arc<Connection> keeps the writer thread alive).
"""
import re
from tcommon import read, strip_comments, write_if_changed, ShapeError
from t_repro import non_test, norm


def translate():
    v = {}
    cmd = norm(non_test(read("mos/src/commands/lsp.rs")))
    if ("let mut ctx = LspContext::new(); ctx.listen_stdio(); let lsp = LspServer::new(ctx); let mut dbg = DebugServer::new(lsp.context()); "
            "dbg.start(args.debug_adapter_port)?; lsp.start()?; log::info!(\"LSP ended\"); dbg.join()?; log::info!(\"DBG ended\"); Ok(())") not in cmd:
        raise ShapeError("lsp_command changed shape (start debug server / run LSP / join)")
    lsp = norm(non_test(read("mos/src/lsp/mod.rs")))
    # ---- the end of start()
    m = re.search(r"self\.main_loop\(initialization_params\)\?; (.*?) log::info!\(\"Shutting down MOS language server\"\); Ok\(\(\)\)", lsp)
    if not m:
        raise ShapeError("LspServer::start: the part after main_loop changed shape")
    tail = m.group(1).strip()
    old_tail = "Arc::try_unwrap(self.context) .ok() .unwrap() .into_inner() .unwrap() .join()?;"
    new_tail = re.compile(r"let connection = self\.lock_context\(\)\.connection\.take\(\); if let Some\(\(connection, io_threads\)\) = connection \{ "
                          r"(drop\(connection\); )?if let Some\(io_threads\) = io_threads \{ io_threads\.join\(\)\?; \} \}")
    if tail == old_tail:
        v["unwrap_ctx"] = True
        if "fn join(self) -> MosResult<()> { if let Some(io) = self.connection.unwrap().1 { io.join()?; } Ok(()) }" not in lsp:
            raise ShapeError("LspContext::join changed shape")
        v["conn_dropped_before_join"] = False      # the partially moved tuple lives until the end of the `if let`
    else:
        mm = new_tail.fullmatch(tail)
        if not mm:
            raise ShapeError("LspServer::start: unknown teardown after main_loop: %s" % tail[:300])
        v["unwrap_ctx"] = False
        v["conn_dropped_before_join"] = bool(mm.group(1))
    for frag, what in [
        ("fn main_loop(&mut self, params: serde_json::Value) -> MosResult<()> { let connection = self.lock_context().connection().unwrap(); "
         "let _params: InitializeParams = serde_json::from_value(params).unwrap(); for msg in &connection.receiver { self.handle_message(msg)?; } Ok(()) }",
         "main_loop"),
        ('if req.method == "shutdown" { ctx.invoke_shutdown_handlers(); if ctx.connection().unwrap().handle_shutdown(&req)? { return Ok(()); } }',
         "the shutdown arm of handle_message"),
        ("let handlers = { let mut mgr = self.shutdown_manager.lock().unwrap(); std::mem::take(&mut mgr.handlers) }; "
         "for sender in handlers.values() { let _ = sender.send(()); }", "invoke_shutdown_handlers"),
        ("let (connection, io_threads) = Connection::stdio(); self.connection = Some((Arc::new(connection), Some(io_threads)));", "listen_stdio"),
    ]:
        if frag not in lsp:
            raise ShapeError("lsp/mod.rs: %s changed shape" % what)
    m = re.search(r"pub fn add_shutdown_handler\(&mut self\) -> ShutdownReceiverHandle \{ let \(s, r\) = crossbeam_channel::(bounded\((\d+)\)|unbounded\(\));", lsp)
    if not m:
        raise ShapeError("add_shutdown_handler: the handler channel is no longer created by crossbeam_channel::bounded(n) / unbounded()")
    v["handler_rendezvous"] = m.group(2) is not None and int(m.group(2)) == 0
    # both callers of invoke_shutdown_handlers hold the context lock: `ctx` of handle_message, `self.lsp.lock()` in DebugServer::join
    # ---- debug server
    dbg = norm(non_test(read("mos/src/debugger/mod.rs")))
    if ("self.thread = Some(std::thread::spawn(move || { while !thread_shutdown.load(Ordering::Relaxed) { let mut dbg = DebugSession::new(lsp.clone(), port); "
            "match dbg.start() { Ok(_) => (), Err(e) => { log::debug!(\"Could not start DebugSession: {:?}\", e); } } } }));") not in dbg:
        raise ShapeError("DebugServer::start: thread loop changed shape")
    m = re.search(r"pub fn join\(self\) -> MosResult<\(\)> \{ (.*?) Ok\(\(\)\) \}", dbg)
    if not m:
        raise ShapeError("DebugServer::join not found")
    j = m.group(1).strip()
    if j == 'self.shutdown.store(true, Ordering::Relaxed); self.thread .unwrap() .join() .expect("Could not join debugger thread");':
        v["join_wakes"] = False
    else:
        mm = re.fullmatch(
            r'self\.shutdown\.store\(true, Ordering::Relaxed\); let thread = self\.thread\.unwrap\(\); while !thread\.is_finished\(\) \{ '
            r'(self\.lsp\.lock\(\)\.unwrap\(\)\.invoke_shutdown_handlers\(\);|if let Ok\(mut lsp\) = self\.lsp\.lock\(\) \{ lsp\.invoke_shutdown_handlers\(\); \}) '
            r'let _ = std::net::TcpStream::connect\(\("127\.0\.0\.1", self\.port\)\); std::thread::sleep\(std::time::Duration::from_millis\(10\)\); \} '
            r'(thread\.join\(\)\.expect\("Could not join debugger thread"\);|if thread\.join\(\)\.is_err\(\) \{ log::error!\("The debugger thread had panicked"\); \})', j)
        if not mm:
            raise ShapeError("DebugServer::join: unknown shape: %s" % j[:400])
        v["join_wakes"] = True
        v["join_tolerates_dead"] = mm.group(2).startswith("if thread.join().is_err()")
    v.setdefault("join_tolerates_dead", False)
    # ---- poisoned context lock on the LSP side
    lc = re.search(r"pub fn lock_context\(&self\) -> MutexGuard<LspContext> \{ (.*?) \}", lsp)
    hm = re.search(r"let cloned_ctx = self\.context\.clone\(\); let mut ctx = (.*?); match msg \{", lsp)
    if not lc or not hm:
        raise ShapeError("lsp/mod.rs: lock_context / handle_message lock not found")
    forms = {"self.context.lock().unwrap()": False, "cloned_ctx.lock().unwrap()": False,
             "self.context .lock() .unwrap_or_else(|poisoned| poisoned.into_inner())": True,
             "cloned_ctx .lock() .unwrap_or_else(|poisoned| poisoned.into_inner())": True}
    if lc.group(1).strip() not in forms or hm.group(1).strip() not in forms:
        raise ShapeError("lsp/mod.rs: unknown way of locking the context: %s / %s" % (lc.group(1), hm.group(1)))
    v["recovers_poison"] = forms[lc.group(1).strip()] and forms[hm.group(1).strip()]
    m = re.search(r"pub fn start\(&mut self\) -> MosResult<\(\)> \{ log::info!\(\"DebugSession listening on port \{\}\.\.\.\", self\.port\); (.*?) loop \{", dbg)
    if not m:
        raise ShapeError("DebugSession::start: prologue changed shape")
    pro = m.group(1)
    i_acc, i_reg = pro.find("DebugConnection::tcp("), pro.find("add_shutdown_handler()")
    if i_acc < 0 or i_reg < 0:
        raise ShapeError("DebugSession::start: accept / add_shutdown_handler not found before the loop")
    v["register_before_accept"] = i_reg < i_acc
    m = re.search(r"1 => \{ (let _ = oper\.recv\(lsp_shutdown_receiver\.receiver\(\)\); )?log::trace!\(\"Shutdown received from LSP\.\"\); break; \}", dbg)
    if not m:
        raise ShapeError("DebugSession::start: the select's shutdown arm changed shape")
    v["select_completes"] = bool(m.group(1))
    for frag, what in [
        ("sel.recv(receiver);", "select on the DAP receiver"), ("sel.recv(lsp_shutdown_receiver.receiver());", "select on the shutdown receiver"),
        ("0 => match oper.recv(receiver) { Ok(m) => self.handle_message(m)?, Err(_) => break, },", "the select's DAP arm"),
    ]:
        if frag not in dbg:
            raise ShapeError("DebugSession::start: %s changed shape" % what)
    con = norm(non_test(read("mos/src/debugger/connection.rs")))
    if "let listener = TcpListener::bind(address)?; let (stream, _) = listener.accept()?;" not in con:
        raise ShapeError("DebugConnection::tcp is no longer bind + blocking accept")
    # ---- census: who can hold the LSP connection (Sender to the stdio writer) or the context for long
    holders = {}
    import os
    from tcommon import REPO
    for root, _, fs in os.walk(os.path.join(REPO, "mos", "src")):
        for f in fs:
            if f.endswith(".rs") and not f.startswith("verif_"):
                rel = os.path.relpath(os.path.join(root, f), REPO)
                src = non_test(read(rel))
                # LspContext::connection() is private to mos/src/lsp: only that directory can take a clone of the connection
                n_conn = len(re.findall(r"Arc<Connection>|\.connection\(\)|connection\.clone\(\)|connection\.take\(\)", src)) \
                    if rel.startswith("mos/src/lsp/") else 0
                n_ctx = len(re.findall(r"Arc<Mutex<LspContext>>|\.context\(\)|lsp\.clone\(\)|context\.clone\(\)", src))
                if n_conn or n_ctx:
                    holders[rel] = (n_conn, n_ctx)
    # the number of context holders only matters while start() unwraps the context; connection holders always matter
    want_conn = {"mos/src/lsp/mod.rs": 8 if not v["unwrap_ctx"] else 7}
    have_conn = {k: c for k, (c, _) in holders.items() if c}
    if have_conn != want_conn:
        raise ShapeError("holders of the LSP connection changed: %s (modelled: %s) -- a new long-lived clone of the Arc<Connection> keeps the "
                         "stdio writer alive" % (have_conn, want_conn))
    if v["unwrap_ctx"]:
        want_ctx = {"mos/src/commands/lsp.rs": 1, "mos/src/debugger/mod.rs": 6, "mos/src/lsp/mod.rs": 4}
        have_ctx = {k: c for k, (_, c) in holders.items() if c}
        if have_ctx != want_ctx:
            raise ShapeError("holders of the shared LSP context changed: %s (modelled: %s)" % (have_ctx, want_ctx))
    b = lambda x: "true" if x else "false"
    out = ["(* GENERATED by translate/t_life.py from mos/src/{commands/lsp.rs,lsp/mod.rs,debugger/mod.rs,debugger/connection.rs}. DO NOT EDIT. *)",
           "From Mos Require Import model.Life.",
           "Definition life_variant : variant :=",
           "  mkVariant %s %s %s %s %s %s %s %s." % (b(v["unwrap_ctx"]), b(v["conn_dropped_before_join"]), b(v["join_wakes"]), b(v["select_completes"]),
                                                  b(v["register_before_accept"]), b(v["join_tolerates_dead"]), b(v["recovers_poison"]),
                                                  b(v["handler_rendezvous"]))]
    fp = write_if_changed("LifeSites.v", "\n".join(out) + "\n")
    return {"file": "Gen/LifeSites.v", "fingerprint": fp, "variant": v, "holders": {k: list(x) for k, x in holders.items()}}


if __name__ == "__main__":
    import json
    print(json.dumps(translate(), indent=1))

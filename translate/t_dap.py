"""T-dap: the lock structure of the test-runner debug adapter and the machine-event table -> Gen/DapShape.v

Translated:
  * adapter_protocol   StateHeld | Legacy -- which protocol of model/Dap.v the adapter implements, decided from
                       mos/src/debugger/adapters/test_runner/mod.rs:
                         StateHeld  the machine thread binds the guard of `thread_state.lock()` to a name before its `match`,
                                    drops it only in the Launching/Stopped arm, reuses it (no second lock) when it publishes
                                    Stopped at a breakpoint, and keeps it until after `runner.execute_instruction()`;
                                    `pause` takes `self.state.lock()` into a named guard *before* reading the program counter
                                    and assigns through that guard
                         Legacy     the machine thread copies the state out of a temporary guard
                                    (`*thread_state.lock().unwrap()`), locks again at a breakpoint, and `pause` reads the
                                    program counter first and then calls update_state
  * adapter_reset_lcp  whether the machine thread clears last_checked_pc after execute_instruction (`Ok(result) => {
                       last_checked_pc = None; ...`)
  * gen_event_of       the arms of `match (old, new)` in DebugSession::handle_machine_event (mos/src/debugger/mod.rs)
                       plus the Message / Disconnected arms, in source order
Checked for shape (ShapeError = broken tie): TestRunner::step_over, step_out, run_until_return (count nested calls until the
subroutine's own rts) and the call_depth bookkeeping of execute_instruction in mos/src/test_runner/mod.rs, which model/DapStep.v mirrors; order of the regions in the machine thread (state read, runner.read block with
last_checked_pc / breakpoints / publish, runner.write block with execute_instruction), step_in / next / step_out =
runner.write block followed by self.pause(), update_state = lock + assign + send, start() assigns Running without an event,
resume() = update_state(Running), set_breakpoints assigns under the breakpoints lock, registers() reads under runner.read.
"""
import re
from tcommon import read, strip_comments, write_if_changed, ShapeError, balanced_block

ADAPTER = "mos/src/debugger/adapters/test_runner/mod.rs"
RUNNER = "mos/src/test_runner/mod.rs"
DEBUGGER = "mos/src/debugger/mod.rs"


def squash(s):
    return re.sub(r"\s+", " ", s).strip()


def fn_body(src, name):
    m = re.search(r"fn %s\b[^{;]*\{" % re.escape(name), src)
    if not m:
        raise ShapeError("fn %s not found" % name)
    return balanced_block(src, m.end() - 1)


def strip_hooks(src):
    """cfg(mos_verif) items are add-only instrumentation: `#[cfg(mos_verif)]` + the statement that follows"""
    return re.sub(r"#\[cfg\(mos_verif\)\]\s*[^;{]*;", " ", src)


def order(text, pats, what):
    pos = -1
    for p in pats:
        m = re.search(p, text[pos + 1:], re.S)
        if not m:
            raise ShapeError("%s: `%s` not found in the expected order" % (what, p))
        pos = pos + 1 + m.start()
    return True


def machine_thread(src):
    m = re.search(r"thread::spawn\(move \|\| \{", src)
    if not m:
        raise ShapeError("machine thread not found")
    body = balanced_block(src, m.end() - 1)
    order(body, [r"let mut last_checked_pc = None;", r"while thread_is_connected\.load\(", r"thread_state\.lock\(\)",
                 r"MachineRunningState::Launching \| MachineRunningState::Stopped\(_\) =>", r"thread::sleep\(",
                 r"MachineRunningState::Running =>", r"thread_runner\.read\(\)", r"get_program_counter\(\)",
                 r"last_checked_pc != Some\(pc\)", r"last_checked_pc = Some\(pc\);", r"thread_breakpoints\.lock\(\)",
                 r"bp\.range\.start <= pc && bp\.range\.end > pc", r"MachineRunningState::Stopped\(pc\)", r"\*state = new;",
                 r"RunningStateChanged \{ old, new \}", r"continue;", r"thread_runner\.write\(\)",
                 r"runner\.execute_instruction\(\)", r"ExecuteResult::Running => \{\}", r"MachineEvent::Disconnected",
                 r"thread_is_connected\.store\(false"], "machine thread")
    reset = bool(re.search(r"Ok\(result\) => \{\s*last_checked_pc = None;", body))
    if len(re.findall(r"last_checked_pc = ", body)) != (3 if reset else 2):
        raise ShapeError("machine thread: unexpected assignments to last_checked_pc")
    nlocks = len(re.findall(r"thread_state\.lock\(\)", body))
    held = re.search(r"let mut (\w+) = thread_state\.lock\(\)\.unwrap\(\);\s*let (\w+) = \*\1;\s*match \2 \{", body)
    copied = re.search(r"let (\w+) = \*thread_state\.lock\(\)\.unwrap\(\);\s*match \1 \{", body)
    running = body[body.index("MachineRunningState::Running =>"):]
    if held and nlocks == 1:
        g = held.group(1)
        if re.search(r"drop\(%s\)" % g, running):
            raise ShapeError("machine thread: the state guard is dropped inside the Running arm")
        idle = body[body.index("MachineRunningState::Launching"):body.index("MachineRunningState::Running =>")]
        order(idle, [r"drop\(%s\);" % g, r"thread::sleep\("], "machine thread: idle arm drops the guard before sleeping")
        if not re.search(r"let old = \*%s;" % g, running):
            raise ShapeError("machine thread: breakpoint arm does not publish through the held guard")
        return "StateHeld", reset
    if copied and nlocks == 2:
        order(running, [r"let mut state = thread_state\.lock\(\)\.unwrap\(\);", r"let old = \*state;"], "machine thread (legacy)")
        return "Legacy", reset
    raise ShapeError("machine thread: unrecognised use of the run-state lock (%d lock sites)" % nlocks)


def pause_fn(src):
    body = squash(fn_body(src, "pause"))
    held = re.fullmatch(r"let mut state = self\.state\.lock\(\)\.unwrap\(\); let pc = self\.runner\.read\(\)\.unwrap\(\)\.cpu\(\)\."
                        r"get_program_counter\(\); let old = \*state; let new = MachineRunningState::Stopped\(ProgramCounter::new\("
                        r"pc as usize\)\); \*state = new; self\.event_sender \.send\(MachineEvent::RunningStateChanged \{ old, new \}\)\?; "
                        r"Ok\(\(\)\)", body)
    if held:
        return "StateHeld"
    legacy = re.fullmatch(r"let pc = self\.runner\.read\(\)\.unwrap\(\)\.cpu\(\)\.get_program_counter\(\); self\.update_state\("
                          r"MachineRunningState::Stopped\(ProgramCounter::new\( pc as usize, \)\)\)\?; Ok\(\(\)\)", body)
    if legacy:
        return "Legacy"
    raise ShapeError("pause(): unrecognised body: " + body[:200])


def other_fns(src):
    for name, call in (("next", "step_over"), ("step_in", "execute_instruction"), ("step_out", "step_out")):
        body = squash(fn_body(src, name))
        if body != "{ let mut runner = self.runner.write().unwrap(); runner.%s()?; } self.pause()?; Ok(())" % call:
            raise ShapeError("%s(): unrecognised body: %s" % (name, body[:200]))
    if squash(fn_body(src, "update_state")) != ("let mut state = self.state.lock().unwrap(); let old = *state; *state = new; self.event_sender "
                                               ".send(MachineEvent::RunningStateChanged { old, new })?; Ok(())"):
        raise ShapeError("update_state(): unrecognised body")
    if squash(fn_body(src, "start")) != "*self.state.lock().unwrap() = MachineRunningState::Running; Ok(())":
        raise ShapeError("start(): unrecognised body")
    if squash(fn_body(src, "resume")) != "self.update_state(MachineRunningState::Running)?; Ok(())":
        raise ShapeError("resume(): unrecognised body")
    if squash(fn_body(src, "running_state")) != "Ok(*self.state.lock().unwrap())":
        raise ShapeError("running_state(): unrecognised body")
    if not squash(fn_body(src, "set_breakpoints")).startswith("*self.breakpoints.lock().unwrap() = breakpoints.clone();"):
        raise ShapeError("set_breakpoints(): unrecognised body")
    if not squash(fn_body(src, "registers")).startswith("let runner = self.runner.read().unwrap();"):
        raise ShapeError("registers(): unrecognised body")


def runner_steps(src):
    """TestRunner::step_over / step_out have the shape model/DapStep.v mirrors"""
    so = squash(fn_body(src, "step_over"))
    if so != ("let opcode = self.ram.read().unwrap().ram[self.cpu.get_program_counter() as usize]; match opcode { 0x20 => { "
              "match self.execute_instruction()? { ExecuteResult::Running => self.run_until_return(), result => Ok(result), } } "
              "_ => self.execute_instruction(), }"):
        raise ShapeError("TestRunner::step_over: unrecognised body: " + so[:200])
    out = squash(fn_body(src, "step_out"))
    if out != "if self.call_depth == 0 { return Ok(ExecuteResult::Running); } self.run_until_return()":
        raise ShapeError("TestRunner::step_out: unrecognised body: " + out[:200])
    rur = squash(fn_body(src, "run_until_return"))
    if rur != ("let mut nested_calls = 0; loop { "
               "let opcode = self.ram.read().unwrap().ram[self.cpu.get_program_counter() as usize]; match self.execute_instruction()? { "
               "ExecuteResult::Running => {} result => { return Ok(result); } } match opcode { 0x20 => nested_calls += 1, "
               "0x60 if nested_calls == 0 => return Ok(ExecuteResult::Running), 0x60 => nested_calls -= 1, _ => {} } }"):
        raise ShapeError("TestRunner::run_until_return: unrecognised body: " + rur[:200])
    ex = squash(fn_body(src, "execute_instruction"))
    tail = ("let opcode = self.ram.read().unwrap().ram[self.cpu.get_program_counter() as usize]; self.cpu.cycle(self.ram.write().unwrap()."
            "deref_mut()); self.num_cycles += 1 + self.cpu.get_remaining_cycles() as usize; self.cpu .execute_instruction(self.ram.write()."
            "unwrap().deref_mut()); match opcode { 0x20 => self.call_depth += 1, 0x60 => self.call_depth = self.call_depth.saturating_sub(1), "
            "_ => {} } Ok(ExecuteResult::Running)")
    # the two updates above are the only writes (reads, e.g. by cfg(mos_verif) accessors, do not matter)
    if not ex.endswith(tail) or len(re.findall(r"call_depth\s*(?:\+=|-=|=(?!=))", src)) != 2:
        raise ShapeError("TestRunner::execute_instruction: call_depth is not maintained the way model/DapStep.v (call_depth) mirrors")


STATE = {"Launching": "Launching", "Running": "Running", "Stopped(_)": "(Stopped _)", "_": "_"}


def event_table(src):
    body = fn_body(src, "handle_machine_event")
    m = re.search(r"MachineEvent::RunningStateChanged \{ old, new \} => match \(old, new\) \{", body)
    if not m:
        raise ShapeError("handle_machine_event: match (old, new) not found")
    arms_src = balanced_block(body, m.end() - 1)
    arms = []
    pat = re.compile(r"((?:\(\s*[\w:()]+\s*,\s*[\w:()]+\s*\)\s*\|?\s*)+)=>\s*", re.S)
    pos = 0
    while True:
        mm = pat.search(arms_src, pos)
        if not mm:
            break
        pats = re.findall(r"\(\s*([\w:()]+)\s*,\s*([\w:()]+)\s*\)", mm.group(1))
        i = mm.end()
        if arms_src[i] == "{":
            arm_body = balanced_block(arms_src, i)
            pos = i + len(arm_body) + 2
        else:
            e = arms_src.index(",", i)
            arm_body = arms_src[i:e]
            pos = e + 1
        if "StoppedReason::Breakpoint" in arm_body and "StoppedEvent" in arm_body:
            res = "Some (Some EvStoppedBreakpoint)"
        elif "StoppedReason::Step" in arm_body and "StoppedEvent" in arm_body:
            res = "Some (Some EvStoppedStep)"
        elif "ContinuedEvent" in arm_body:
            res = "Some (Some EvContinued)"
        elif arm_body.strip() == "()":
            res = "Some None"
        elif "panic!" in arm_body:
            res = "None"
        else:
            raise ShapeError("handle_machine_event: unrecognised arm body: " + squash(arm_body)[:120])
        cps = []
        for a, b in pats:
            a, b = a.replace("MachineRunningState::", ""), b.replace("MachineRunningState::", "")
            if a not in STATE or b not in STATE:
                raise ShapeError("handle_machine_event: unrecognised pattern (%s, %s)" % (a, b))
            cps.append("RSC %s %s" % (STATE[a], STATE[b]))
        arms.append((" | ".join(cps), res))
    if len(arms) != 5:
        raise ShapeError("handle_machine_event: expected 5 arms for (old, new), found %d" % len(arms))
    rest = body[m.end() + len(arms_src):]
    order(rest, [r"MachineEvent::Message \{ output, location \} =>", r"enqueue_event::<OutputEvent>", r"MachineEvent::Disconnected =>",
                 r"enqueue_event::<TerminatedEvent>"], "handle_machine_event")
    arms.append(("Message", "Some (Some EvOutput)"))
    arms.append(("Disconnected", "Some (Some EvTerminated)"))
    return arms


def translate():
    src = strip_hooks(strip_comments(read(ADAPTER)))
    p1, reset = machine_thread(src)
    p2 = pause_fn(src)
    other_fns(src)
    if p1 != p2:
        raise ShapeError("machine thread follows the %s protocol but pause() the %s protocol: no model for this mixture" % (p1, p2))
    runner_steps(strip_hooks(strip_comments(read(RUNNER))))
    arms = event_table(strip_comments(read(DEBUGGER)))
    out = ["(* generated by translate/t_dap.py from %s and %s -- do not edit *)" % (ADAPTER, DEBUGGER),
           "From Mos Require Import model.Dap.", "",
           "Definition adapter_protocol : protocol := %s." % p1, "",
           "Definition adapter_reset_lcp : bool := %s." % ("true" if reset else "false"), "",
           "Definition gen_event_of (e : mevent) : option (option dapevent) :=", "  match e with"]
    for pat, res in arms:
        out.append("  | %s => %s" % (pat, res))
    out += ["  end.", ""]
    fp = write_if_changed("DapShape.v", "\n".join(out))
    return {"file": "Gen/DapShape.v", "protocol": p1, "reset_lcp": reset, "event_arms": len(arms), "fingerprint": fp}


if __name__ == "__main__":
    print(translate())

"""T-repro: the hash-collection iteration sites on the `mos build` path -> Gen/ReproSites.v   (property C10)

For every modelled site (coq/theories/model/Repro.v) re-reads from the Rust source
  * the collection type (hash-ordered vs insertion-ordered),
  * whether / by which key the elements are sorted before they reach output,
and writes them as the `site_config` the C10 theorems are stated about.  Additionally a census of every mention of
HashMap / HashSet in the non-test code of the files on the build path: a new hash collection there that the model does
not know about is a broken tie (ShapeError), as is a modelled fragment that changed its shape.
"""
import re
from tcommon import read, strip_comments, write_if_changed, ShapeError


def norm(s):
    return re.sub(r"\s+", " ", s).strip()


def strip_hooks(src):
    """remove every item / statement guarded by #[cfg(mos_verif)] (hooks are not part of the product)"""
    out = []
    i = 0
    tag = "#[cfg(mos_verif)]"
    while True:
        j = src.find(tag, i)
        if j < 0:
            out.append(src[i:])
            break
        out.append(src[i:j])
        k = j + len(tag)
        # the guarded item ends at the first `;` outside braces, or at the brace that closes its first `{`
        depth = 0
        while k < len(src):
            c = src[k]
            if c == "{":
                depth += 1
            elif c == "}":
                depth -= 1
                if depth == 0:
                    k += 1
                    break
            elif c == ";" and depth == 0:
                k += 1
                break
            k += 1
        i = k
    return "".join(out)


def non_test(src):
    """the part of a file before its `#[cfg(test)]` module, without comments and without cfg(mos_verif) hook items"""
    src = strip_comments(src)
    m = re.search(r"#\[cfg\(test\)\]\s*(pub )?mod tests? \{", src)
    if m:
        src = src[:m.start()]
    return strip_hooks(src)


# every mention of a hash collection in non-test code on the build path, as (file, count of `HashMap`, count of `HashSet`);
# each one is accounted for below or in design.d/C10.md ("hash collections that do not reach output")
CENSUS = {
    "mos-core/src/parser/ast.rs": (3, 0),            # use; ParseTree.files (x2: field, new()) -- lookups by key only
    "mos-core/src/parser/mod.rs": (3, 0),            # use; `files` of parse() (type + ::new) -- insert only
    "mos-core/src/parser/source.rs": (3, 0),         # use; InMemoryParsingSource.files -- lookups only
    "mos-core/src/parser/code_map.rs": (0, 0),
    "mos-core/src/codegen/mod.rs": (4, 4),           # predefined_constants (empty for `build`), functions; undefined, prev_undefined
    "mos-core/src/codegen/symbols.rs": (8, 3),       # children, visible_symbols (LSP/DAP only), all, all_impl, ensure_cpu_symbols
    "mos-core/src/codegen/analysis.rs": (3, 2),      # definitions, usages: LSP only (not written by `build`)
    "mos-core/src/codegen/config_validator.rs": (0, 5),
    "mos-core/src/codegen/evaluator.rs": (2, 0),     # FunctionMap: lookups by name only
    "mos-core/src/codegen/source_map.rs": (0, 0),
    "mos-core/src/codegen/segment.rs": (0, 0),
    "mos-core/src/io/vice.rs": (0, 0),
    "mos-core/src/io/listing.rs": (3, 0),            # use, return type, ::new
    "mos-core/src/io/binary_writer.rs": (2, 0),      # use, write_banks `files`: entry() by key only, never iterated
    "mos-core/src/errors.rs": (0, 0),
    "mos/src/commands/build.rs": (0, 0),
    "mos/src/diagnostic_emitter.rs": (0, 0),
    "mos/src/config.rs": (0, 0),
}


def census():
    got = {}
    for f, want in CENSUS.items():
        src = non_test(read(f))
        have = (len(re.findall(r"\bHashMap\b", src)), len(re.findall(r"\bHashSet\b", src)))
        got[f] = have
        if have != want:
            raise ShapeError("hash-collection census of %s changed: HashMap x%d, HashSet x%d (modelled: %d, %d) -- "
                             "a hash collection on the build path that the C10 model does not account for"
                             % (f, have[0], have[1], want[0], want[1]))
    return got


def translate():
    sites = {}
    # ---- 1. pending imports
    ast = norm(strip_comments(read("mos-core/src/parser/ast.rs")))
    m = re.search(r"pub to_import: Arc<RefCell<(\w+)<PathBuf, Span>>>,", ast)
    if not m:
        raise ShapeError("ParserInstance::to_import: field type not recognised")
    coll = m.group(1)
    if coll == "HashMap":
        to_import = "Hashed"
    elif coll in ("IndexMap",):
        to_import = "Ordered"
    else:
        raise ShapeError("ParserInstance::to_import: unknown collection %s" % coll)
    if not re.search(r"to_import: Arc::new\(RefCell::new\(%s::new\(\)\)\)" % coll, ast):
        raise ShapeError("ParserInstance::new: to_import initialiser changed")
    if "self.anonymous_scope_index += 1; Identifier::anonymous(self.anonymous_scope_index)" not in ast:
        raise ShapeError("State::new_anonymous_scope changed")
    sites["to_import"] = to_import
    # ---- 2. the work list in parse()
    pm = norm(non_test(read("mos-core/src/parser/mod.rs")))
    for frag, what in [
        ("let mut files_to_import = vec![filename.to_path_buf()];", "work list initialisation"),
        ("let to_import = files_to_import .pop() .unwrap() .parse_dot() .unwrap() .to_path_buf();", "work list pop"),
        ("for (also_import, span) in Arc::try_unwrap(more_to_import).ok().unwrap().into_inner() {", "iteration over the pending imports"),
        ("files_to_import.push(also_import);", "work list push"),
        ("let import_scope = state.shared_state().new_anonymous_scope();", "import scope allocation"),
        ("state .to_import .borrow_mut() .insert(path.clone(), filename.span());", "pending import insert"),
        (".any(|file| file.name() == to_import.to_string_lossy()); if already_imported {", "already-imported test"),
    ]:
        if frag not in pm:
            raise ShapeError("parser/mod.rs: %s changed (expected `%s`)" % (what, frag))
    cm = norm(non_test(read("mos-core/src/parser/code_map.rs")))
    if "let low = self.end_pos() + 1; let high = low + source.len() as u64;" not in cm or "self.files.push(file.clone());" not in cm:
        raise ShapeError("CodeMap::add_file changed")
    # ---- 3. undefined symbols
    cg = norm(non_test(read("mos-core/src/codegen/mod.rs")))
    if "undefined: HashSet<UndefinedSymbol>," not in cg:
        raise ShapeError("CodegenContext::undefined is no longer a HashSet<UndefinedSymbol>")
    m = re.search(r"let errors = ctx \.undefined \.iter\(\) (.*?)\.map\(\|item\| \{ let mut diag = Diagnostic::error\(\) "
                  r"\.with_message\(format!\(\"unknown identifier: \{\}\", item\.id\)\); if let Some\(span\) = item\.span \{ "
                  r"diag = diag\.with_labels\(vec!\[span\.to_label\(\)\]\); \} diag \}\) \.collect_vec\(\);", cg)
    if not m:
        raise ShapeError("codegen(): the undefined-symbol report changed shape")
    srt = m.group(1).strip()
    if srt == ".sorted_by_key(|k| k.id.to_string())":
        undef_key = "KeyName"
    elif srt == ".sorted_by_key(|k| (k.id.to_string(), k.span))":
        undef_key = "KeyNameSpan"
    else:
        raise ShapeError("codegen(): undefined symbols are sorted by an unknown key / not sorted: `%s`" % srt)
    if not re.search(r"struct UndefinedSymbol \{ scope_nx: SymbolIndex, id: IdentifierPath, span: Option<Span>, \}", cg):
        raise ShapeError("UndefinedSymbol changed")
    sites["undef_key"] = undef_key
    # ---- 4. import *: export loop
    m = re.search(r"for \(child_id, child_nx\) in (self \.symbols \.children\(import_nx\) \.into_iter\(\) "
                  r"\.sorted_by_key\(\|\(child_id, child_nx\)\| \(\*child_nx, child_id\.clone\(\)\)\)|self\.symbols\.children\(import_nx\)) \{", cg)
    if not m:
        raise ShapeError("Token::Import / ImportArgs::All: the loop over the import scope's children changed")
    sites["import_all"] = "IterSortedByKey" if "sorted_by_key" in m.group(1) else "IterHashed"
    if "for (to_export_nx, new_parent_nx, new_path, span) in to_export { if self.symbols.export(to_export_nx, new_parent_nx, &new_path) {" not in cg:
        raise ShapeError("Token::Import: export loop changed")
    # ---- 5. symbols.rs: children / all
    sy = norm(non_test(read("mos-core/src/codegen/symbols.rs")))
    for frag, what in [
        ("pub fn children(&self, nx: SymbolIndex) -> HashMap<Identifier, SymbolIndex> { self.graph .edges_directed(nx, Direction::Outgoing) "
         ".map(|edge| (edge.weight().clone(), edge.target())) .collect() }", "SymbolTable::children"),
        ("pub fn all(&self) -> HashMap<IdentifierPath, (SymbolIndex, &S)> { let mut result = HashMap::new(); "
         "self.all_impl(&mut result, self.root, \"\".into()); result }", "SymbolTable::all"),
        ("if let Some(data) = self.try_get(nx) { map.insert(path.clone(), (nx, data)); } for (child_id, child_nx) in self.children(nx) { "
         "self.all_impl(map, child_nx, path.join(child_id)); }", "SymbolTable::all_impl"),
    ]:
        if frag not in sy:
            raise ShapeError("symbols.rs: %s changed" % what)
    # ---- 6. VICE export
    vi = norm(non_test(read("mos-core/src/io/vice.rs")))
    m = re.search(r"table \.all\(\) \.into_iter\(\) \.filter_map\(\|\(path, \(_, symbol\)\)\| match symbol\.ty \{ "
                  r"SymbolType::Label => Some\(format!\(\"al C:\{:X\} \.\{\}\", symbol\.data\.as_i64\(\), path\)\), _ => None, \}\) "
                  r"(\.sorted\(\) )?\.join\(LINE_ENDING\)", vi)
    if not m:
        raise ShapeError("to_vice_symbols changed shape")
    sites["vice_sorted"] = "true" if m.group(1) else "false"
    # ---- 7. listing
    li = norm(non_test(read("mos-core/src/io/listing.rs")))
    if ") -> CoreResult<HashMap<PathBuf, String>> { let mut listing = HashMap::new(); for file in ctx.tree().code_map.files() {" not in li \
            or "listing.insert(PathBuf::from(file.name()), result);" not in li:
        raise ShapeError("to_listing changed shape")
    bu = norm(non_test(read("mos/src/commands/build.rs")))
    if ("let mut listings: Vec<_> = to_listing(&generated_code, cfg.formatting.listing.num_bytes_per_line)? .into_iter() .collect(); "
            "listings.sort(); for (source_path, contents) in listings {") in bu:
        sites["listing"] = "IterSortedByKey"
    elif "for (source_path, contents) in to_listing(&generated_code, cfg.formatting.listing.num_bytes_per_line)? {" in bu:
        sites["listing"] = "IterHashed"
    else:
        raise ShapeError("build_command: the listing loop changed shape")
    if 'let listing_path = format!("{}.lst", source_path.file_stem().unwrap().to_string_lossy());' not in bu:
        raise ShapeError("build_command: listing file name changed")
    # ---- 8. emitter, Diagnostics
    em = norm(non_test(read("mos/src/diagnostic_emitter.rs")))
    if "for diag in diagnostics.iter() {" not in em:
        raise ShapeError("DiagnosticEmitter::emit_diagnostics no longer walks the diagnostics in stored order")
    er = norm(non_test(read("mos-core/src/errors.rs")))
    if "diags: Vec<Diagnostic<Span>>," not in er or "pub fn iter(&self) -> impl Iterator<Item = &Diagnostic<Span>> { self.diags.iter() }" not in er:
        raise ShapeError("Diagnostics is no longer a Vec walked in order")
    # ---- 9. config validator
    cv = norm(non_test(read("mos-core/src/codegen/config_validator.rs")))
    if 'let r = req.iter().sorted().join(", ");' not in cv or "for (key, _) in kvps.iter().sorted_by_key(|(k, _)| &k.data) {" not in cv:
        raise ShapeError("ConfigValidator::extract: sorting changed")
    # ---- 10. census
    cen = census()
    out = ["(* GENERATED by translate/t_repro.py from the hash-collection sites on the `mos build` path. DO NOT EDIT. *)",
           "From Mos Require Import model.Repro.",
           "Definition sites : site_config :=",
           "  mkSites %s %s %s %s %s." % (sites["to_import"], sites["undef_key"], sites["vice_sorted"], sites["listing"], sites["import_all"])]
    fp = write_if_changed("ReproSites.v", "\n".join(out) + "\n")
    return {"file": "Gen/ReproSites.v", "fingerprint": fp, "sites": sites,
            "census": {k: list(v) for k, v in cen.items() if v != (0, 0)}}


if __name__ == "__main__":
    import json
    print(json.dumps(translate(), indent=1))

"""T-repro: the hash-collection iteration sites on the `mos build` path -> Gen/ReproSites.v   (property C10)

For every modelled site (coq/theories/model/Repro.v) re-reads from the Rust source
  * the collection type (hash-ordered vs insertion-ordered),
  * whether / by which key the elements are sorted before they reach output,
and writes them as the `site_config` the C10 theorems are stated about.  Additionally a census of every mention of
HashMap / HashSet in the non-test code of the files on the build path: a new hash collection there that the model does
not know about is a broken tie (ShapeError), as is a modelled fragment that changed its shape.
"""
import re
from tcommon import read, strip_comments, write_if_changed, ShapeError


def norm(s):
    return re.sub(r"\s+", " ", s).strip()


def strip_hooks(src):
    """remove every item / statement guarded by #[cfg(mos_verif)] (hooks are not part of the product)"""
    out = []
    i = 0
    tag = "#[cfg(mos_verif)]"
    while True:
        j = src.find(tag, i)
        if j < 0:
            out.append(src[i:])
            break
        out.append(src[i:j])
        k = j + len(tag)
        # the guarded item ends at the first `;` outside braces, or at the brace that closes its first `{`
        depth = 0
        while k < len(src):
            c = src[k]
            if c == "{":
                depth += 1
            elif c == "}":
                depth -= 1
                if depth == 0:
                    k += 1
                    break
            elif c == ";" and depth == 0:
                k += 1
                break
            k += 1
        i = k
    return "".join(out)


def non_test(src):
    """the part of a file before its `#[cfg(test)]` module, without comments and without cfg(mos_verif) hook items"""
    src = strip_comments(src)
    m = re.search(r"#\[cfg\(test\)\]\s*(pub )?mod tests? \{", src)
    if m:
        src = src[:m.start()]
    return strip_hooks(src)


# ---- census of hash ITERATIONS on the build path --------------------------------------------------------------------
# Declaring a HashMap/HashSet and using it for lookups (`get`, `contains`, `insert`, `entry`, `is_empty`, `==`) cannot leak an order;
# iterating it can.  For every file on the build path: (a) the names bound to a hash collection (fields, parameters, locals, via the
# std types or a type alias of them) and every place where such a name is iterated (`.iter()`, `.into_iter()`, `.keys()`, `.values()`,
# `.drain()`, `for .. in name`, `.extend(name)`); (b) every call of a function that RETURNS a hash collection.  The expected sites
# are listed below with the reason each is harmless or which model site covers it; anything else is a broken tie.
BUILD_PATH = [
    "mos-core/src/parser/ast.rs", "mos-core/src/parser/mod.rs", "mos-core/src/parser/source.rs", "mos-core/src/parser/code_map.rs",
    "mos-core/src/codegen/mod.rs", "mos-core/src/codegen/symbols.rs", "mos-core/src/codegen/analysis.rs",
    "mos-core/src/codegen/config_validator.rs", "mos-core/src/codegen/config_extractor.rs", "mos-core/src/codegen/evaluator.rs",
    "mos-core/src/codegen/source_map.rs", "mos-core/src/codegen/segment.rs", "mos-core/src/codegen/program_counter.rs",
    "mos-core/src/codegen/opcodes.rs", "mos-core/src/codegen/text_encoding.rs",
    "mos-core/src/io/vice.rs", "mos-core/src/io/listing.rs", "mos-core/src/io/binary_writer.rs", "mos-core/src/errors.rs",
    "mos/src/commands/build.rs", "mos/src/diagnostic_emitter.rs", "mos/src/config.rs", "mos/src/main.rs",
]
ITER_METHODS = "iter|iter_mut|into_iter|keys|values|values_mut|into_keys|into_values|drain"

EXPECTED_ITERATIONS = {
    # file: sorted ["name.how", ...]
    "mos-core/src/codegen/mod.rs": [
        "predefined_constants.for",      # inserted into the symbol table; empty for `mos build` (only the test runner passes constants)
        "undefined.iter",                # model site report_undefined (sorted by (name, span))
    ],
    "mos-core/src/codegen/config_validator.rs": [
        "req.iter",                      # model site missing_required (`.sorted()` on whole strings)
    ],
    "mos-core/src/codegen/analysis.rs": [
        "usages.iter", "usages.iter", "usages.iter", "usages.iter",   # Definition::usages* / try_get_usages: LSP navigation only, nothing `build` prints
        "definitions.iter",                        # Analysis::find / look-ups for the LSP
    ],
}
EXPECTED_HASH_FN_CALLS = {
    # calls of functions returning a hash collection: (file, function) -> count
    ("mos-core/src/codegen/mod.rs", "children"): 1,      # model site import_all (sorted by (node index, identifier))
    ("mos-core/src/codegen/mod.rs", "all"): 1,           # finalize(): greedy analysis of unused macros -- LSP option only
    ("mos-core/src/codegen/symbols.rs", "children"): 2,  # remove_all (order irrelevant: removes a whole subtree), all_impl (model site all_impl)
    ("mos-core/src/io/vice.rs", "all"): 1,               # model site to_vice_symbols (`.sorted()`)
    ("mos/src/commands/build.rs", "to_listing"): 1,      # model site write_listings (`listings.sort()`)
}


def hash_census():
    names_by_file, fns = {}, set()
    texts = {}
    for f in BUILD_PATH:
        try:
            src = norm(non_test(read(f)))
        except FileNotFoundError:
            continue
        texts[f] = src
        aliases = set(re.findall(r"type (\w+) = Hash(?:Map|Set)<", src))
        ty = "(?:(?:std::collections::)?Hash(?:Map|Set)" + "".join("|" + a for a in aliases) + ")"
        names = set(re.findall(r"\b(\w+): (?:&(?:mut )?)?(?:Arc<(?:RefCell|Mutex)<)?" + ty + r"\b", src))
        names |= set(re.findall(r"let (?:mut )?(\w+)(?:: [^=;]+)? = (?:std::collections::)?Hash(?:Map|Set)::(?:new|with_capacity|from)\(", src))
        names |= set(re.findall(r"let (?:mut )?(\w+)(?:: [^=;]+)? = [^;]*?collect::<(?:std::collections::)?Hash(?:Map|Set)\b", src))
        # a clone / take of a hash-typed name is a hash collection too (`let mut req = self.required.clone()`)
        for _ in range(2):
            for n in list(names):
                names |= set(re.findall(r"let (?:mut )?(\w+) = (?:std::mem::take\(&mut )?(?:\w+\.)*%s(?:\.clone\(\)|\))" % re.escape(n), src))
        names_by_file[f] = names
        fns |= set(re.findall(r"fn (\w+)(?:<[^>]*>)?\([^{;]*?\) -> (?:CoreResult<)?" + ty + r"\b", src))
    # type aliases defined in one file may be used in another (FunctionMap)
    all_aliases = set()
    for src in texts.values():
        all_aliases |= set(re.findall(r"type (\w+) = Hash(?:Map|Set)<", src))
    for f, src in texts.items():
        for a in all_aliases:
            names_by_file[f] |= set(re.findall(r"\b(\w+): (?:&(?:mut )?)?" + a + r"\b", src))
    iters, calls = {}, {}
    for f, src in texts.items():
        found = []
        for n in sorted(names_by_file[f]):
            for m in re.finditer(r"\b%s ?\.(%s)\(" % (re.escape(n), ITER_METHODS), src):
                found.append("%s.iter" % n)
            for m in re.finditer(r"\bin &?(?:mut )?(?:\w+\.)*%s\b(?! ?\.(?:get|contains|len|is_empty))" % re.escape(n), src):
                found.append("%s.for" % n)
            for m in re.finditer(r"\.extend\((?:\w+\.)*%s\)" % re.escape(n), src):
                found.append("%s.extend" % n)
        if found:
            iters[f] = sorted(found)
        for fn in sorted(fns):
            c = len(re.findall(r"(?<!fn )(?:\.|\b)%s\(" % re.escape(fn), src)) - len(re.findall(r"fn %s\b" % re.escape(fn), src))
            c = len([m for m in re.finditer(r"(?:\.|(?<![\w.]))%s\(" % re.escape(fn), src) if not src[max(0, m.start() - 3):m.start()].endswith("fn ")])
            if c and fn not in ("new",):
                calls[(f, fn)] = c
    return iters, calls, sorted(fns)


def census():
    iters, calls, fns = hash_census()
    want_i = {k: sorted(v) for k, v in EXPECTED_ITERATIONS.items()}
    if iters != want_i:
        diff = {f: (iters.get(f), want_i.get(f)) for f in set(iters) | set(want_i) if iters.get(f) != want_i.get(f)}
        raise ShapeError("iterations over hash collections on the build path changed (found, modelled): %s -- a hash iteration the C10 model "
                         "does not account for (or one that went away)" % diff)
    # visible_symbols is only called from the LSP / debugger; flag it if the build path starts to use it
    if calls != EXPECTED_HASH_FN_CALLS:
        diff = {str(k): (calls.get(k), EXPECTED_HASH_FN_CALLS.get(k)) for k in set(calls) | set(EXPECTED_HASH_FN_CALLS)
                if calls.get(k) != EXPECTED_HASH_FN_CALLS.get(k)}
        raise ShapeError("calls of functions that return a hash collection changed on the build path (found, modelled): %s" % diff)
    return {"iterations": iters, "hash_fn_calls": {"%s:%s" % k: v for k, v in calls.items()}, "hash_returning_fns": fns}


def translate():
    sites = {}
    # ---- 1. pending imports
    ast = norm(strip_comments(read("mos-core/src/parser/ast.rs")))
    m = re.search(r"pub to_import: Arc<RefCell<(\w+)<PathBuf, Span>>>,", ast)
    if not m:
        raise ShapeError("ParserInstance::to_import: field type not recognised")
    coll = m.group(1)
    if coll == "HashMap":
        to_import = "Hashed"
    elif coll in ("IndexMap",):
        to_import = "Ordered"
    else:
        raise ShapeError("ParserInstance::to_import: unknown collection %s" % coll)
    if not re.search(r"to_import: Arc::new\(RefCell::new\(%s::new\(\)\)\)" % coll, ast):
        raise ShapeError("ParserInstance::new: to_import initialiser changed")
    if "self.anonymous_scope_index += 1; Identifier::anonymous(self.anonymous_scope_index)" not in ast:
        raise ShapeError("State::new_anonymous_scope changed")
    sites["to_import"] = to_import
    # ---- 2. the work list in parse()
    pm = norm(non_test(read("mos-core/src/parser/mod.rs")))
    for frag, what in [
        ("let mut files_to_import = vec![filename.to_path_buf()];", "work list initialisation"),
        ("let to_import = files_to_import .pop() .unwrap() .parse_dot() .unwrap() .to_path_buf();", "work list pop"),
        ("for (also_import, span) in Arc::try_unwrap(more_to_import).ok().unwrap().into_inner() {", "iteration over the pending imports"),
        ("files_to_import.push(also_import);", "work list push"),
        ("let import_scope = state.shared_state().new_anonymous_scope();", "import scope allocation"),
        ("state .to_import .borrow_mut() .insert(path.clone(), filename.span());", "pending import insert"),
        (".any(|file| file.name() == to_import.to_string_lossy()); if already_imported {", "already-imported test"),
    ]:
        if frag not in pm:
            raise ShapeError("parser/mod.rs: %s changed (expected `%s`)" % (what, frag))
    cm = norm(non_test(read("mos-core/src/parser/code_map.rs")))
    if "let low = self.end_pos() + 1; let high = low + source.len() as u64;" not in cm or "self.files.push(file.clone());" not in cm:
        raise ShapeError("CodeMap::add_file changed")
    # ---- 3. undefined symbols
    cg = norm(non_test(read("mos-core/src/codegen/mod.rs")))
    if "undefined: HashSet<UndefinedSymbol>," not in cg:
        raise ShapeError("CodegenContext::undefined is no longer a HashSet<UndefinedSymbol>")
    m = re.search(r"let errors = ctx \.undefined \.iter\(\) (.*?)\.map\(\|item\| \{ let mut diag = Diagnostic::error\(\) "
                  r"\.with_message\(format!\(\"unknown identifier: \{\}\", item\.id\)\); if let Some\(span\) = item\.span \{ "
                  r"diag = diag\.with_labels\(vec!\[span\.to_label\(\)\]\); \} diag \}\) \.collect_vec\(\);", cg)
    if not m:
        raise ShapeError("codegen(): the undefined-symbol report changed shape")
    srt = m.group(1).strip()
    if srt == ".sorted_by_key(|k| k.id.to_string())":
        undef_key = "KeyName"
    elif srt == ".sorted_by_key(|k| (k.id.to_string(), k.span))":
        undef_key = "KeyNameSpan"
    else:
        raise ShapeError("codegen(): undefined symbols are sorted by an unknown key / not sorted: `%s`" % srt)
    if not re.search(r"struct UndefinedSymbol \{ scope_nx: SymbolIndex, id: IdentifierPath, span: Option<Span>, \}", cg):
        raise ShapeError("UndefinedSymbol changed")
    sites["undef_key"] = undef_key
    # ---- 4. import *: export loop
    m = re.search(r"for \(child_id, child_nx\) in (self \.symbols \.children\(import_nx\) \.into_iter\(\) "
                  r"\.sorted_by_key\(\|\(child_id, child_nx\)\| \(\*child_nx, child_id\.clone\(\)\)\)|self\.symbols\.children\(import_nx\)) \{", cg)
    if not m:
        raise ShapeError("Token::Import / ImportArgs::All: the loop over the import scope's children changed")
    sites["import_all"] = "IterSortedByKey" if "sorted_by_key" in m.group(1) else "IterHashed"
    if "for (to_export_nx, new_parent_nx, new_path, span) in to_export { if self.symbols.export(to_export_nx, new_parent_nx, &new_path) {" not in cg:
        raise ShapeError("Token::Import: export loop changed")
    # ---- 5. symbols.rs: children / all
    sy = norm(non_test(read("mos-core/src/codegen/symbols.rs")))
    for frag, what in [
        ("pub fn children(&self, nx: SymbolIndex) -> HashMap<Identifier, SymbolIndex> { self.graph .edges_directed(nx, Direction::Outgoing) "
         ".map(|edge| (edge.weight().clone(), edge.target())) .collect() }", "SymbolTable::children"),
        ("pub fn all(&self) -> HashMap<IdentifierPath, (SymbolIndex, &S)> { let mut result = HashMap::new(); "
         "self.all_impl(&mut result, self.root, \"\".into()); result }", "SymbolTable::all"),
        ("if let Some(data) = self.try_get(nx) { map.insert(path.clone(), (nx, data)); } for (child_id, child_nx) in self.children(nx) { "
         "self.all_impl(map, child_nx, path.join(child_id)); }", "SymbolTable::all_impl"),
    ]:
        if frag not in sy:
            raise ShapeError("symbols.rs: %s changed" % what)
    # ---- 6. VICE export
    vi = norm(non_test(read("mos-core/src/io/vice.rs")))
    m = re.search(r"table \.all\(\) \.into_iter\(\) \.filter_map\(\|\(path, \(_, symbol\)\)\| match symbol\.ty \{ "
                  r"SymbolType::Label => Some\(format!\(\"al C:\{:X\} \.\{\}\", symbol\.data\.as_i64\(\), path\)\), _ => None, \}\) "
                  r"(\.sorted\(\) )?\.join\(LINE_ENDING\)", vi)
    if not m:
        raise ShapeError("to_vice_symbols changed shape")
    sites["vice_sorted"] = "true" if m.group(1) else "false"
    # ---- 7. listing
    li = norm(non_test(read("mos-core/src/io/listing.rs")))
    # anchors only (the body between them renders one file's text and iterates nothing hash-ordered: census below)
    for frag in (") -> CoreResult<HashMap<PathBuf, String>> {", "let mut listing = HashMap::new();",
                 "for file in ctx.tree().code_map.files() {", "listing.insert(PathBuf::from(file.name()), result);"):
        if frag not in li:
            raise ShapeError("to_listing changed shape (expected `%s`)" % frag)
    if li.index("let mut listing = HashMap::new();") > li.index("for file in ctx.tree().code_map.files() {"):
        raise ShapeError("to_listing: the listing map is no longer filled by the loop over the code map")
    bu = norm(non_test(read("mos/src/commands/build.rs")))
    if ("let mut listings: Vec<_> = to_listing(&generated_code, cfg.formatting.listing.num_bytes_per_line)? .into_iter() .collect(); "
            "listings.sort(); for (source_path, contents) in listings {") in bu:
        sites["listing"] = "IterSortedByKey"
    elif "for (source_path, contents) in to_listing(&generated_code, cfg.formatting.listing.num_bytes_per_line)? {" in bu:
        sites["listing"] = "IterHashed"
    else:
        raise ShapeError("build_command: the listing loop changed shape")
    if 'let listing_path = format!("{}.lst", source_path.file_stem().unwrap().to_string_lossy());' not in bu:
        raise ShapeError("build_command: listing file name changed")
    # ---- 8. emitter, Diagnostics
    em = norm(non_test(read("mos/src/diagnostic_emitter.rs")))
    if "for diag in diagnostics.iter() {" not in em:
        raise ShapeError("DiagnosticEmitter::emit_diagnostics no longer walks the diagnostics in stored order")
    er = norm(non_test(read("mos-core/src/errors.rs")))
    if "diags: Vec<Diagnostic<Span>>," not in er or "pub fn iter(&self) -> impl Iterator<Item = &Diagnostic<Span>> { self.diags.iter() }" not in er:
        raise ShapeError("Diagnostics is no longer a Vec walked in order")
    # ---- 9. config validator
    cv = norm(non_test(read("mos-core/src/codegen/config_validator.rs")))
    if 'let r = req.iter().sorted().join(", ");' not in cv or "for (key, _) in kvps.iter().sorted_by_key(|(k, _)| &k.data) {" not in cv:
        raise ShapeError("ConfigValidator::extract: sorting changed")
    # ---- 10. census
    cen = census()
    out = ["(* GENERATED by translate/t_repro.py from the hash-collection sites on the `mos build` path. DO NOT EDIT. *)",
           "From Mos Require Import model.Repro.",
           "Definition sites : site_config :=",
           "  mkSites %s %s %s %s %s." % (sites["to_import"], sites["undef_key"], sites["vice_sorted"], sites["listing"], sites["import_all"])]
    fp = write_if_changed("ReproSites.v", "\n".join(out) + "\n")
    return {"file": "Gen/ReproSites.v", "fingerprint": fp, "sites": sites,
            "census": cen}


if __name__ == "__main__":
    import json
    print(json.dumps(translate(), indent=1))

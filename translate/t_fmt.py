"""T8: mos-core/src/formatting/mod.rs (+ the Token enum of parser/ast.rs) -> Gen/FmtRules.v

Translated on every run:
  * `pub enum Token { ... }`: the variant list (= the token kinds whose discriminants format_tokens compares)
  * the newline rule table of format_tokens: `let (newline_if_same, newline_if_diff) = match token { ... }`,
    one arm per group of token kinds; the arm expressions are written in a tiny language
    (true | false | block.is_some() | matches!(prev_token, ...) | ! | ||) that is translated to Gallina
  * the condition that decides whether the newline is pushed
  * the `Default` impls of MnemonicOptions / BraceOptions / WhitespaceOptions
  * the arms of `Casing::format` (which std function each casing applies)
  * which trivia become which chunks (`impl Formattable for &Vec<Trivia>`)
A fragment that lost its expected shape raises ShapeError.
"""
import re
from tcommon import read, strip_comments, write_if_changed, between, balanced_block, ShapeError


def split_top(s, sep=","):
    """split at top-level separators (outside (), {}, [])"""
    out, depth, cur = [], 0, ""
    for ch in s:
        if ch in "({[":
            depth += 1
        elif ch in ")}]":
            depth -= 1
        if ch == sep and depth == 0:
            out.append(cur)
            cur = ""
        else:
            cur += ch
    if cur.strip():
        out.append(cur)
    return out


def token_variants():
    src = strip_comments(read("mos-core/src/parser/ast.rs"))
    m = re.search(r"pub enum Token\s*\{", src)
    if not m:
        raise ShapeError("enum Token not found")
    body = balanced_block(src, m.end() - 1)
    names = []
    for part in split_top(body):
        part = part.strip()
        if not part:
            continue
        mm = re.match(r"([A-Z]\w*)\s*(\{.*\}|\(.*\))?$", part, re.S)
        if not mm:
            raise ShapeError("enum Token: unexpected variant text %r" % part[:60])
        names.append(mm.group(1))
    if len(names) != len(set(names)) or len(names) < 20:
        raise ShapeError("enum Token: suspicious variant list %s" % names)
    return names


def pat_kinds(pat, variants, what):
    """`Token::A { .. } | Token::B(_)` -> ([A, B], binds_block)"""
    kinds, binds = [], False
    for alt in split_top(pat, "|"):
        alt = alt.strip()
        mm = re.fullmatch(r"Token::(\w+)\s*(\{\s*(block\s*,\s*)?\.\.\s*\}|\(_\))", alt)
        if not mm:
            raise ShapeError("%s: unexpected pattern %r" % (what, alt))
        if mm.group(1) not in variants:
            raise ShapeError("%s: unknown token kind %s" % (what, mm.group(1)))
        kinds.append(mm.group(1))
        if mm.group(3):
            binds = True
    return kinds, binds


def tr_expr(e, variants, binds_block, what):
    """the arm expression language -> Gallina bool over (has_block : bool) (prev : kind)"""
    e = re.sub(r"\s+", " ", e.strip())
    ors = split_top(e.replace("||", "\x00"), "\x00")
    if len(ors) > 1:
        return "(" + " || ".join(tr_expr(x, variants, binds_block, what) for x in ors) + ")"
    if e == "true" or e == "false":
        return e
    if e == "block.is_some()":
        if not binds_block:
            raise ShapeError("%s: block used but not bound" % what)
        return "has_block"
    if e.startswith("!"):
        return "negb " + tr_expr(e[1:], variants, binds_block, what)
    mm = re.fullmatch(r"matches!\(\s*prev_token\s*,\s*(.*?)\s*,?\s*\)", e)
    if mm:
        kinds, _ = pat_kinds(mm.group(1), variants, what)
        return "(match prev with %s => true | _ => false end)" % " | ".join("K" + k for k in kinds)
    raise ShapeError("%s: expression outside the translated language: %r" % (what, e))


def translate():
    variants = token_variants()
    src = strip_comments(read("mos-core/src/formatting/mod.rs"))

    # ---- newline rules
    ft = between(src, r"fn format_tokens\(&mut self, tokens: &\[Token\], trim_leading_trivia: bool\)\s*\{", r"\n    fn format_line", "format_tokens")
    m = re.search(r"let \(newline_if_same, newline_if_diff\) = match token\s*\{", ft)
    if not m:
        raise ShapeError("format_tokens: newline rule table not found")
    table = balanced_block(ft, m.end() - 1)
    arms = []
    seen = set()
    default = None
    for arm in split_top(table):
        arm = arm.strip()
        if not arm:
            continue
        if "=>" not in arm:
            raise ShapeError("newline rules: arm without => : %r" % arm[:60])
        pat, rhs = arm.split("=>", 1)
        rhs = rhs.strip()
        mm = re.fullmatch(r"\((.*)\)", rhs, re.S)
        if not mm:
            raise ShapeError("newline rules: arm value is not a pair: %r" % rhs[:60])
        pair = split_top(mm.group(1))
        if len(pair) != 2:
            raise ShapeError("newline rules: arm value is not a pair: %r" % rhs[:60])
        if pat.strip() == "_":
            default = (tr_expr(pair[0], variants, False, "default arm"), tr_expr(pair[1], variants, False, "default arm"))
            continue
        if default is not None:
            raise ShapeError("newline rules: arm after the wildcard arm")
        kinds, binds = pat_kinds(pat, variants, "newline rules")
        for k in kinds:
            if k in seen:
                raise ShapeError("newline rules: kind %s matched twice" % k)
            seen.add(k)
        arms.append((kinds, tr_expr(pair[0], variants, binds, str(kinds)), tr_expr(pair[1], variants, binds, str(kinds))))
    if default is None:
        raise ShapeError("newline rules: no wildcard arm")
    flat = re.sub(r"\s+", " ", ft)
    if "if let Token::Error(_) = token { } else if let Some(prev_token) = if token_idx > 0 { tokens.get(token_idx - 1) } else { None } {" not in flat:
        raise ShapeError("format_tokens: the guard around the newline rules changed")
    # between the guard and the rule table: nothing (statements that share a source line are emitted back to back), or
    # the separating newline for a statement that starts on the line of the previous one
    gap = flat.split("else { None } {", 1)[1].split("let (newline_if_same, newline_if_diff) = match token {", 1)[0].strip()
    tail = flat.split("let token_type = std::mem::discriminant(token);", 1)[0].rsplit("};", 1)[1].strip()
    sep_src = ("let starts_on_new_line = token .trivia() .map(|t| t.contains(&Trivia::NewLine)) .unwrap_or(false); "
               "if !starts_on_new_line && !matches!(token, Token::Eof(_)) && !matches!(prev_token, Token::Label { block: None, .. }) "
               "{ self.push(\"\\n\"); }")
    if gap == "" and tail == sep_src:
        separates = True
    elif gap == "" and tail == "":
        separates = False
    else:
        raise ShapeError("format_tokens: unexpected code around the newline rule table: %r / %r" % (gap[:120], tail[:200]))
    if ("let token_type = std::mem::discriminant(token); let prev_token_type = std::mem::discriminant(prev_token); "
            "if (token_type == prev_token_type && newline_if_same) || (token_type != prev_token_type && newline_if_diff) { self.push(\"\\n\"); }") not in flat:
        raise ShapeError("format_tokens: the condition that pushes the newline changed")
    if "self.format_line(tokens, None); if trim_leading_trivia {" not in flat or "self.format_line(tokens, Some(token_idx));" not in flat:
        raise ShapeError("format_tokens: the order leading trivia / newline / token changed")

    # ---- defaults
    def default_of(struct):
        body = between(src, r"impl Default for %s\s*\{\s*fn default\(\) -> Self\s*\{\s*Self\s*\{" % struct, r"\}", "Default for " + struct)
        out = {}
        for part in split_top(body):
            part = part.strip()
            if part:
                k, v = part.split(":", 1)
                out[k.strip()] = v.strip()
        return out

    mn = default_of("MnemonicOptions")
    br = default_of("BraceOptions")
    wsd = default_of("WhitespaceOptions")
    try:
        d = {
            "casing": {"Casing::Lowercase": "Lowercase", "Casing::Uppercase": "Uppercase"}[mn["casing"]],
            "register_casing": {"Casing::Lowercase": "Lowercase", "Casing::Uppercase": "Uppercase"}[mn["register_casing"]],
            "position": {"BracePosition::SameLine": "SameLine", "BracePosition::NewLine": "NewLine"}[br["position"]],
            "indent": int(wsd["indent"]), "label_margin": int(wsd["label_margin"]), "code_margin": int(wsd["code_margin"]),
            "label_alignment": {"Alignment::Left": "ALeft", "Alignment::Right": "ARight"}[wsd["label_alignment"]],
        }
    except (KeyError, ValueError) as e:
        raise ShapeError("defaults: unexpected field/value: %s" % e)
    if set(mn) != {"casing", "register_casing"} or set(br) != {"position"} or set(wsd) != {"indent", "label_margin", "label_alignment", "code_margin"}:
        raise ShapeError("defaults: option structs have different fields: %s %s %s" % (sorted(mn), sorted(br), sorted(wsd)))

    # ---- casing table
    cf = re.sub(r"\s+", " ", between(src, r"impl Casing\s*\{\s*fn format\(&self, s: &str\) -> String\s*\{\s*match self\s*\{", r"\}", "Casing::format"))
    cas = dict(re.findall(r"Casing::(\w+) => s\.(to_uppercase|to_lowercase)\(\)", cf))
    if set(cas) != {"Uppercase", "Lowercase"} or re.sub(r"Casing::\w+ => s\.\w+\(\),?|\s", "", cf):
        raise ShapeError("Casing::format: unexpected arms: %r" % cf)

    # ---- trivia -> chunks
    tv = re.sub(r"\s+", " ", between(src, r"impl Formattable for &Vec<Trivia>\s*\{", r"\n\}", "Formattable for &Vec<Trivia>"))
    want = ("fn format(&self, formatter: &mut CodeFormatter) { for triv in *self { match triv { "
            "Trivia::CStyle(comment) | Trivia::CppStyle(comment) => { formatter.push_type(ChunkType::Comment, comment); } "
            "Trivia::Whitespace(_) => (), Trivia::NewLine => { formatter.push(\"\\n\"); } }; } }")
    if tv.strip() != want:
        raise ShapeError("trivia -> chunks changed: %r" % tv[:200])

    # ---- specific import arguments: is the trivia of the Located wrapper emitted?
    ia = re.sub(r"\s+", " ", between(src, r"impl Formattable for &Vec<ArgItem<SpecificImportArg>>\s*\{", r"\n\}", "Formattable for &Vec<ArgItem<SpecificImportArg>>")).strip()
    ia_old = ("fn format(&self, formatter: &mut CodeFormatter) { for (path, comma) in *self { formatter .fmt(&path.data.path) .spc_if_next() "
              ".fmt(&path.data.as_) .fmt(comma) .spc_if_next(); } formatter.clear_spc_if_next(); }")
    ia_new = ia_old.replace("in *self { formatter", "in *self { if let Some(t) = path.trivia.as_ref() { formatter.fmt(&t.data); } formatter")
    if ia == ia_old:
        import_arg_trivia = False
    elif ia == ia_new:
        import_arg_trivia = True
    else:
        raise ShapeError("Formattable for &Vec<ArgItem<SpecificImportArg>> changed: %r" % ia[:300])

    # ---- format_block: is the trivia in front of `{` (comments of a directive's / label's / import's block) emitted?
    fb = re.sub(r"\s+", " ", between(src, r"fn format_block\(&mut self, block: &Block\)\s*\{", r"\n    fn format_expression", "format_block")).strip()
    arm = re.search(r"Token::Braces \{ block, \.\. \}( \| Token::Config\(block\))? => \{(.*?)\}\s*Token::Config", re.sub(r"\s+", " ", src + " Token::Config"))
    old_head = "match self.options.braces.position { BracePosition::SameLine => self.push(&block.lparen.data).push(\"\\n\"), BracePosition::NewLine => self.push(\"\\n\").push(&block.lparen.data).push(\"\\n\"), };"
    new_head = ("if let Some(t) = block.lparen.trivia.as_ref() { for triv in &t.data { match triv { "
                "Trivia::CStyle(comment) => { self.push_type(ChunkType::Comment, comment); } "
                "Trivia::CppStyle(comment) => { self.push_type(ChunkType::Comment, comment).push(\"\\n\"); } "
                "Trivia::Whitespace(_) | Trivia::NewLine => (), } } } self.format_block_without_lparen_trivia(block); } "
                "fn format_block_without_lparen_trivia(&mut self, block: &Block) { match self.options.braces.position { "
                "BracePosition::SameLine => self.push(&block.lparen.data).push(\"\\n\"), BracePosition::NewLine => { "
                "if self.chunks.last().map(|c| c.str != \"\\n\").unwrap_or(true) { self.push(\"\\n\"); } "
                "self.push(&block.lparen.data).push(\"\\n\") } };")
    flat_src = re.sub(r"\s+", " ", src)
    if fb.startswith(old_head) and "Token::Braces { block, .. } | Token::Config(block) => { self.format_block(block); }" in flat_src:
        lbrace_trivia = False
    elif fb.startswith(new_head) and ("Token::Braces { block, .. } => { self.format_block_without_lparen_trivia(block); } "
                                      "Token::Config(block) => { self.format_block(block); }") in flat_src:
        lbrace_trivia = True
    else:
        raise ShapeError("format_block / the Braces arm have an unrecognised shape: %r" % fb[:200])

    # ---- interpolated strings: is the trivia in front of a path inside `{ }` emitted?
    isf = re.sub(r"\s+", " ", between(src, r"impl Formattable for &InterpolatedString\s*\{", r"\n\}", "Formattable for &InterpolatedString")).strip()
    is_old = ("fn format(&self, formatter: &mut CodeFormatter) { formatter.fmt(&self.lquote); for item in &self.items { match item { "
              "InterpolatedStringItem::String(s) => { formatter.push(s); } InterpolatedStringItem::IdentifierPath(path) => { "
              "formatter.push('{').push(&path.data).push('}'); } } } formatter.push(\"\\\"\"); }")
    is_new = is_old.replace("formatter.push('{').push(&path.data).push('}');", "formatter.push('{').fmt(path).push('}');")
    if isf == is_old:
        interp_trivia = False
    elif isf == is_new:
        interp_trivia = True
    else:
        raise ShapeError("Formattable for &InterpolatedString changed: %r" % isf[:300])

    out = ["(* GENERATED by translate/t_fmt.py from mos-core/src/formatting/mod.rs and parser/ast.rs. DO NOT EDIT. *)",
           "From Coq Require Import Bool.",
           "From Mos Require Import model.Format.",
           "",
           "(* the variants of `enum Token`, in declaration order (std::mem::discriminant) *)",
           "Inductive kind := " + " | ".join("K" + v for v in variants) + ".",
           "Definition kind_eqb (a b : kind) : bool :=",
           "  match a, b with " + " | ".join("K%s, K%s => true" % (v, v) for v in variants) + " | _, _ => false end.",
           "",
           "(* (newline_if_same, newline_if_diff) of format_tokens; has_block = `block.is_some()` of the token *)",
           "Definition newline_rule (k : kind) (has_block : bool) (prev : kind) : bool * bool :=",
           "  match k with"]
    for kinds, a, b in arms:
        out.append("  | %s => (%s, %s)" % (" | ".join("K" + k for k in kinds), a, b))
    out.append("  | _ => (%s, %s)" % default)
    out.append("  end.")
    out += ["",
            "(* `(token_type == prev_token_type && newline_if_same) || (token_type != prev_token_type && newline_if_diff)` *)",
            "Definition pushes_newline (k : kind) (has_block : bool) (prev : kind) : bool :=",
            "  match k with",
            "  | KError => false   (* `if let Token::Error(_) = token { /* nothing */ }` *)",
            "  | _ => let '(same, diff) := newline_rule k has_block prev in",
            "         (kind_eqb k prev && same) || (negb (kind_eqb k prev) && diff)",
            "  end.",
            "",
            "(* format_tokens pushes a newline in front of a statement that starts on the line of the previous statement *)",
            "Definition separates_same_line_statements : bool := %s." % ("true" if separates else "false"),
            "(* format_block emits the comments in front of the `{` of a directive / label / import / `.define` block *)",
            "Definition emits_lbrace_trivia : bool := %s." % ("true" if lbrace_trivia else "false"),
            "(* the trivia in front of an identifier path inside the braces of an interpolated string is emitted *)",
            "Definition emits_interpolation_trivia : bool := %s." % ("true" if interp_trivia else "false"),
            "(* the trivia in front of a specific import argument (its Located wrapper) is emitted *)",
            "Definition emits_import_arg_trivia : bool := %s." % ("true" if import_arg_trivia else "false"),
            "",
            "(* FormattingOptions::default() *)",
            "Definition default_options : options :=",
            "  mkOptions %s %s %s %d %d %s %d." % (d["casing"], d["register_casing"], d["position"], d["indent"], d["label_margin"],
                                                 d["label_alignment"], d["code_margin"]),
            "",
            "(* Casing::format: true = the casing applies to_uppercase, false = to_lowercase *)",
            "Definition casing_upper (c : casing) : bool :=",
            "  match c with Uppercase => %s | Lowercase => %s end." % ("true" if cas["Uppercase"] == "to_uppercase" else "false",
                                                                     "true" if cas["Lowercase"] == "to_uppercase" else "false")]
    fp = write_if_changed("FmtRules.v", "\n".join(out) + "\n")
    return {"file": "Gen/FmtRules.v", "fingerprint": fp, "kinds": len(variants), "rule_arms": len(arms) + 1, "defaults": d,
            "separates_same_line_statements": separates, "emits_import_arg_trivia": import_arg_trivia,
            "emits_lbrace_trivia": lbrace_trivia, "emits_interpolation_trivia": interp_trivia}


if __name__ == "__main__":
    print(translate())

"""T10: mos/src/lsp/formatting.rs -> Gen/EditsConsts.v

Translated (constants the theorems depend on):
  * column_width          how RangeKeeper::push advances the column: `str.encode_utf16().count()` (UTF-16 code units),
                          `str.len()` (UTF-8 bytes) or `str.chars().count()` (scalars)
  * newline_char          the char RangeKeeper::push searches for
  * cr_char, whole_document_on_cr
                          whether get_text_edits starts with the `contains('\\r')` whole-document branch, and its char
  * validates_diff        whether chunks that do not add up to both texts (is_partition) lead to replace_document
Checked for shape (ShapeError = broken tie): the loop of push, the body of to_range, order / guards / bodies of the five
match arms of get_text_edits, the body of the whole-document branch, do_formatting (guard on ctx.error, default
formatting options, get_text_edits(old_text, &new_text)) and both request handlers calling do_formatting.
"""
import re
from tcommon import read, strip_comments, write_if_changed, between, ShapeError


def squash(s):
    return re.sub(r"\s+", " ", s).strip()


def char_code(lit, what):
    """Rust char / one-char string literal body -> code point"""
    esc = {"\\n": 10, "\\r": 13, "\\t": 9, "\\0": 0, "\\\\": 92, "\\'": 39}
    if lit in esc:
        return esc[lit]
    if len(lit) == 1:
        return ord(lit)
    m = re.fullmatch(r"\\u\{([0-9a-fA-F]+)\}", lit)
    if m:
        return int(m.group(1), 16)
    raise ShapeError("%s: unknown char literal %r" % (what, lit))


WIDTHS = {"str.len()": "width_utf8", "str.encode_utf16().count()": "width_utf16", "str.chars().count()": "width_chars"}

CR_BRANCH = r"if old_text\.contains\('((?:\\.|[^'\\])+)'\) \{ return replace_document\(old_text, new_text\); \} "
VALIDATE = "if !is_partition(&edits, old_text, new_text) { return replace_document(old_text, new_text); } "
REPLACE_DOCUMENT = ('if old_text == new_text { return vec![]; } let lf_only = old_text.replace("\\r\\n", "\\n").replace(\'\\r\', "\\n"); '
                    "vec![TextEdit { range: RangeKeeper::new().to_range(&lf_only), new_text: new_text.to_string(), }]")
IS_PARTITION = ("let mut old = String::new(); let mut new = String::new(); for chunk in chunks { match chunk { "
                "Chunk::Equal(str) => { old.push_str(str); new.push_str(str); } Chunk::Delete(str) => old.push_str(str), "
                "Chunk::Insert(str) => new.push_str(str), } } old == old_text && new == new_text")


def translate():
    src = strip_comments(read("mos/src/lsp/formatting.rs"))
    # ---- RangeKeeper::new / push / to_range
    new = squash(between(src, r"fn new\(\) -> Self \{", r"\n    \}", "RangeKeeper::new"))
    if new != "Self { line: 0, character: 0, }":
        raise ShapeError("RangeKeeper::new has unrecognised shape: %s" % new)
    push = squash(between(src, r"fn push\(&mut self, mut str: &str\) \{", r"fn to_range", "RangeKeeper::push"))
    m = re.match(r"loop \{ match str\.find\('((?:\\.|[^'\\])+)'\) \{ Some\(newline_idx\) => \{ self\.line \+= 1; self\.character = 0; "
                 r"str = str\.split_at\(newline_idx \+ 1\)\.1; \} None => \{ self\.character \+= (.*?) as u32; break; \} \} \} \}$", push)
    if not m:
        raise ShapeError("RangeKeeper::push has unrecognised shape: %s" % push[:300])
    nl = char_code(m.group(1), "RangeKeeper::push")
    w = m.group(2).strip()
    if w not in WIDTHS:
        raise ShapeError("RangeKeeper::push: unknown column width expression %r" % w)
    width = WIDTHS[w]
    tr = squash(between(src, r"fn to_range\(&self, str: &str\) -> lsp_types::Range \{", r"\n    \}", "to_range"))
    if tr != "let mut end_rk = self.clone(); end_rk.push(str); rng(self.line, self.character, end_rk.line, end_rk.character)":
        raise ShapeError("RangeKeeper::to_range has unrecognised shape: %s" % tr)
    rng = squash(between(src, r"fn rng\(start_line: u32, start_column: u32, end_line: u32, end_column: u32\) -> lsp_types::Range \{",
                         r"\n\}", "rng"))
    if rng != ("lsp_types::Range { start: lsp_types::Position { line: start_line, character: start_column, }, "
               "end: lsp_types::Position { line: end_line, character: end_column, }, }"):
        raise ShapeError("rng has unrecognised shape: %s" % rng)
    # ---- get_text_edits
    body = squash(between(src, r"fn get_text_edits\(old_text: &str, new_text: &str\) -> Vec<TextEdit> \{", r"\nfn rng", "get_text_edits"))
    cr = 13
    m = re.match(CR_BRANCH, body)
    if m:
        whole = True
        cr = char_code(m.group(1), "get_text_edits")
        body = body[m.end():]
    else:
        whole = False
    head1 = "let mut rk = RangeKeeper::new(); let edits = diff(old_text, new_text); "
    if not body.startswith(head1):
        raise ShapeError("get_text_edits: unrecognised beginning: %s" % body[:200])
    body = body[len(head1):]
    validates = body.startswith(VALIDATE)
    if validates:
        body = body[len(VALIDATE):]
    if whole or validates:
        rd = squash(between(src, r"fn replace_document\(old_text: &str, new_text: &str\) -> Vec<TextEdit> \{", r"\n\}", "replace_document"))
        if rd != REPLACE_DOCUMENT:
            raise ShapeError("replace_document has unrecognised shape: %s" % rd)
    if validates:
        ip = squash(between(src, r"fn is_partition\(chunks: &\[Chunk\], old_text: &str, new_text: &str\) -> bool \{", r"\n\}", "is_partition"))
        if ip != IS_PARTITION:
            raise ShapeError("is_partition has unrecognised shape: %s" % ip)
    head = "let mut idx = 0; let mut result = vec![]; " \
           "while idx < edits.len() { match (edits[idx], edits.get(idx + 1), edits.get(idx + 2)) {"
    if not body.startswith(head):
        raise ShapeError("get_text_edits: unrecognised beginning: %s" % body[:200])
    if not body.endswith("} } result }"):
        raise ShapeError("get_text_edits: unrecognised end: %s" % body[-80:])
    arms = re.findall(r"\((Chunk::\w+\(\w+\)), (Some\(Chunk::\w+\(\w+\)\)|_), (Some\(Chunk::\w+\(\w+\)\)|_)\)( if &del == ins)? =>", body)
    want = [("Chunk::Delete(del)", "Some(Chunk::Equal(eq))", "Some(Chunk::Insert(ins))", " if &del == ins"),
            ("Chunk::Delete(del)", "Some(Chunk::Insert(ins))", "_", ""),
            ("Chunk::Equal(str)", "_", "_", ""), ("Chunk::Insert(str)", "_", "_", ""), ("Chunk::Delete(str)", "_", "_", "")]
    if arms != want:
        raise ShapeError("get_text_edits: match arms changed: %s" % arms)
    checks = [
        r'=> \{ let del = format!\("\{\}\{\}", del, eq\); let ins = format!\("\{\}\{\}", eq, ins\); let cur_range = rk\.to_range\(&del\); rk\.push\(&del\); '
        r'result\.push\(TextEdit \{ range: cur_range, new_text: ins\.to_string\(\), \}\); idx \+= 3; \}',
        r'=> \{ let cur_range = rk\.to_range\(del\); rk\.push\(del\); result\.push\(TextEdit \{ range: cur_range, new_text: ins\.to_string\(\), \}\); idx \+= 2; \}',
        r'\(Chunk::Equal\(str\), _, _\) => \{ rk\.push\(str\); idx \+= 1; \}',
        r'\(Chunk::Insert\(str\), _, _\) => \{ let cur_range = rk\.to_range\(""\); result\.push\(TextEdit \{ range: cur_range, new_text: str\.into\(\), \}\); idx \+= 1; \}',
        r'\(Chunk::Delete\(str\), _, _\) => \{ let cur_range = rk\.to_range\(str\); rk\.push\(str\); result\.push\(TextEdit \{ range: cur_range, new_text: ""\.to_string\(\), \}\); idx \+= 1; \}',
    ]
    for c in checks:
        if not re.search(c, body):
            raise ShapeError("get_text_edits: an arm body changed (expected /%s/)" % c[:70])
    # ---- do_formatting and the handlers
    df = squash(between(src, r"fn do_formatting\(ctx: &mut LspContext, uri: &Url\) -> Option<Vec<TextEdit>> \{", r"\n\}", "do_formatting"))
    want_df = ("let path = uri.to_file_path().unwrap(); if ctx.error.is_empty() { ctx.codegen().map(|codegen| { "
               "let codegen = codegen.lock().unwrap(); let tree = codegen.analysis().tree(); "
               "if let Some(old_file) = tree.try_get_file(&path) { let old_text = old_file.file.source(); "
               "let new_text = format(path, tree.clone(), FormattingOptions::default()); get_text_edits(old_text, &new_text) } "
               "else { vec![] } }) } else { None }")
    if df != want_df:
        raise ShapeError("do_formatting has unrecognised shape: %s" % df)
    h = squash(between(src, r"impl RequestHandler<lsp_types::request::Formatting> for FormattingRequestHandler \{", r"\nfn do_formatting", "handlers"))
    if "Ok(do_formatting(ctx, &params.text_document.uri))" not in h or \
            "Ok(do_formatting( ctx, &params.text_document_position.text_document.uri, ))" not in h or h.count("do_formatting") != 2:
        raise ShapeError("request handlers have unrecognised shape: %s" % h[:300])
    out = ["(* GENERATED by translate/t_edits.py from mos/src/lsp/formatting.rs. DO NOT EDIT. *)",
           "From Coq Require Import NArith.", "From Mos Require Import model.Utf.",
           "Definition column_width : N -> nat := %s." % width,
           "Definition newline_char : N := %d%%N." % nl,
           "Definition cr_char : N := %d%%N." % cr,
           "Definition whole_document_on_cr : bool := %s." % ("true" if whole else "false"),
           "Definition validates_diff : bool := %s." % ("true" if validates else "false")]
    fp = write_if_changed("EditsConsts.v", "\n".join(out) + "\n")
    return {"file": "Gen/EditsConsts.v", "fingerprint": fp, "column_width": width, "newline_char": nl, "cr_char": cr,
            "whole_document_on_cr": whole, "validates_diff": validates}


if __name__ == "__main__":
    print(translate())

"""T-C04b: mos-core/src/codegen/mod.rs (+ evaluator.rs) -> Gen/ErrSpans.v

For every modelled error constructor: WHICH span of the offending construct the diagnostic's label carries.
The Rust span expression is mapped to a constructor of `span_source`; an expression that is not in the table raises
ShapeError (e.g. the macro definition's span instead of the invocation's name).
  invalid instruction      full_span = operand.expr.span.merge(mnemonic.span)        -> SrcInstructionFull
  branch too far           i.mnemonic.span                                           -> SrcMnemonic
  cannot redefine symbol   symbol.span, symbols built with id.span (label, const)    -> SrcDefinitionId
  macro arity              expect_args(name.span, ..) through map_evaluation_error   -> SrcInvocationName
  undefined macro          UndefinedSymbol { span: Some(name.span) }                 -> SrcInvocationName
  undefined segment        id.span of `.segment <id>`                                -> SrcSegmentId
  undefined symbol         UndefinedSymbol { span: Some(usage.path.span) }           -> SrcUsagePath
"""
import re
from tcommon import read, strip_comments, write_if_changed, ShapeError


def squash(s):
    return re.sub(r"\s+", " ", s).strip()


def need(pat, src, what):
    m = re.search(pat, src)
    if not m:
        raise ShapeError("%s: not found / unrecognised shape" % what)
    return m


def translate():
    src = squash(strip_comments(read("mos-core/src/codegen/mod.rs")))
    ev = squash(strip_comments(read("mos-core/src/codegen/evaluator.rs")))
    table = {}
    # invalid instruction
    need(r"let mut full_span = i\.mnemonic\.span; if let Some\(operand_span\) = i\.operand\.as_ref\(\)\.map\(\|o\| o\.expr\.span\) \{ "
         r"full_span = operand_span\.merge\(full_span\); \}", src, "full_span of an instruction")
    m = need(r"\.with_message\(\"invalid instruction\"\) \.with_labels\(vec!\[(\w+(?:\.\w+)*)\.to_label\(\)\]\)", src, "invalid instruction")
    table["InvalidInstruction"] = {"full_span": "SrcInstructionFull", "i.mnemonic.span": "SrcMnemonic"}.get(m.group(1))
    # branch too far
    m = need(r"\"branch too far trying to reach \$\{:4X\} from \$\{:4X\}\", value, cur_pc \)\) \.with_labels\(vec!\[(\w+(?:\.\w+)*)\.to_label\(\)\]\)", src,
             "branch too far")
    table["BranchTooFar"] = {"i.mnemonic.span": "SrcMnemonic", "full_span": "SrcInstructionFull"}.get(m.group(1))
    # redefinition
    # C06: the new definition's span when it has one (`symbol.span.or(existing.span)`: only the assembler's own span-less
    # `segments.<name>.start/.end` fall back to the existing definition) -- same source of the span for every program symbol
    m = need(r"(?:let span = symbol\.span\.expect\(\"no span provided\"\); return Err\(Diagnostic::error\(\) "
             r"\.with_message\(format!\(\"cannot redefine symbol: \{\}\", &path\)\) \.with_labels\(vec!\[(\w+)\.to_label\(\)\]\)"
             r"|let mut diag = Diagnostic::error\(\) \.with_message\(format!\(\"cannot redefine symbol: \{\}\", &path\)\); "
             r"if let Some\((span)\) = symbol\.span\.or\(existing\.span\) \{ diag = diag\.with_labels\(vec!\[span\.to_label\(\)\]\); \})", src, "cannot redefine symbol")
    lab = need(r"Token::Label \{ id, block, \.\. \} => \{ if let Some\(pc\) = self\.try_current_target_pc\(\) \{ self\.add_symbol\( id\.data\.clone\(\), "
               r"self\.symbol\((\w+(?:\.\w+)*), pc\.as_i64\(\), SymbolType::Label\), \)\?; \}", src, "label definition")
    var = need(r"self\.add_symbol\(id\.data\.clone\(\), self\.symbol\((\w+(?:\.\w+)*), value, ty\)\)\?;", src, "constant definition")
    table["Redefinition"] = "SrcDefinitionId" if (m.group(1) or m.group(2), lab.group(1), var.group(1)) == ("span", "id.span", "id.span") else None
    # macro arity
    need(r"fn map_evaluation_error\(&self, error: EvaluationError\) -> Diagnostics \{ Diagnostic::error\(\) \.with_message\(error\.message\) "
         r"\.with_labels\(vec!\[error\.span\.to_label\(\)\]\) \.into\(\) \}", src, "map_evaluation_error")
    need(r"pub fn expect_args\(&self, span: Span, actual: usize, expected: usize\) -> EvaluationResult<\(\)> \{ if actual != expected \{ "
         r"self\.error\( span, format!\(\"expected \{\} arguments, got \{\}\", expected, actual\), \) \} else \{ Ok\(\(\)\) \} \}", ev, "expect_args")
    need(r"fn error<T, M: Into<String>>\(&self, span: Span, message: M\) -> EvaluationResult<T> \{ Err\(EvaluationError \{ span, message: message\.into\(\), \}\) \}",
         ev, "Evaluator::error")
    m = need(r"Token::MacroInvocation \{ id: name, args, \.\. \} => \{.*?\.expect_args\((\w+(?:\.\w+)*), args\.len\(\), def\.args\.len\(\)\) "
             r"\.map_err\(\|e\| self\.map_evaluation_error\(e\)\)\?;", src, "macro arity check")
    table["MacroArity"] = {"name.span": "SrcInvocationName"}.get(m.group(1))
    # undefined macro
    m = need(r"\} else \{ self\.undefined\.insert\(UndefinedSymbol \{ scope_nx: self\.current_scope_nx, id: name\.data\.clone\(\)\.into\(\), "
             r"span: Some\((\w+(?:\.\w+)*)\), \}\); \}", src, "undefined macro")
    table["UndefinedMacro"] = {"name.span": "SrcInvocationName"}.get(m.group(1))
    # undefined segment
    m = need(r"if !self\.segments\.contains_key\(&segment_id\) \{ return Err\(Diagnostic::error\(\) \.with_message\(format!\(\"unknown identifier: \{\}\", id\.data\)\) "
             r"\.with_labels\(vec!\[(\w+(?:\.\w+)*)\.to_label\(\)\]\) \.into\(\)\); \}", src, "undefined segment")
    table["UndefinedSegment"] = {"id.span": "SrcSegmentId"}.get(m.group(1))
    # undefined symbol in an expression
    m = need(r"if usage\.symbol_index\.is_none\(\) \{ self\.undefined\.insert\(UndefinedSymbol \{ scope_nx: self\.current_scope_nx, id: usage\.path\.data, "
             r"span: Some\((\w+(?:\.\w+)*)\), \}\); \}", src, "undefined symbol usage")
    table["UndefinedSymbol"] = {"usage.path.span": "SrcUsagePath"}.get(m.group(1))
    # per-token error collection continues after an error (emit_tokens)
    need(r"fn emit_tokens\(&mut self, tokens: &\[Token\]\) -> CoreResult<\(\)> \{ let mut errors = Diagnostics::default\(\); for token in tokens \{ "
         r"if let Err\(result\) = self\.emit_token\(token\) \{ errors\.extend\(result\); \} \} if errors\.is_empty\(\) \{ Ok\(\(\)\) \} else \{ Err\(errors\) \} \}",
         src, "emit_tokens error collection")
    # every binary operator evaluates BOTH operands (no short-circuit for && / ||): usages of the right operand are tracked
    # whatever the left operand is
    need(r"Expression::BinaryExpression\(bin\) => \{ let lhs = self\.evaluate_expression\(&bin\.lhs, track_usage\)\?; "
         r"let rhs = self\.evaluate_expression\(&bin\.rhs, track_usage\)\?; match \(lhs, rhs\) \{", ev, "binary expression evaluates both operands")
    bad = [k for k, v in table.items() if v is None]
    if bad:
        raise ShapeError("span expression of %s is not the offending construct's" % ", ".join(bad))
    kinds = ["UndefinedSymbol", "UndefinedMacro", "UndefinedSegment", "Redefinition", "InvalidInstruction", "BranchTooFar", "MacroArity"]
    out = ["(* GENERATED by translate/t_errspans.py from mos-core/src/codegen/{mod,evaluator}.rs -- do not edit *)",
           "Inductive err_kind := " + " | ".join(kinds) + ".",
           "Inductive span_source := SrcUsagePath | SrcInvocationName | SrcSegmentId | SrcDefinitionId | SrcInstructionFull | SrcMnemonic.",
           "Definition err_span_source (k : err_kind) : span_source :=",
           "  match k with"]
    for k in kinds:
        out.append("  | %s => %s" % (k, table[k]))
    out.append("  end.")
    out.append("(* Evaluator::evaluate_expression, BinaryExpression arm: lhs and rhs are both evaluated before the operator is applied *)")
    out.append("Definition binary_evaluates_both : bool := true.")
    text = "\n".join(out) + "\n"
    fp = write_if_changed("ErrSpans.v", text)
    return {"fingerprint": fp, "table": table}

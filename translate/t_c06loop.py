"""C06 (named t_c06loop because translate/t_passloop.py is C04's translator of the same fragment): the pass loop of codegen() in mos-core/src/codegen/mod.rs -> Gen/PassLoop.v

Recognises (rather than pins) the exit rules of the `while` loop, so that a removed or weakened rule shows up as a
changed constant -- the theorems of props/C06.v about the loop are then re-checked against what the code says now:
  * MAX_ITERATIONS outside tests (usize::MAX = no cap), and whether leaving the loop through the cap reports a diagnostic
  * rule "same errors as in the previous pass" (`!errors.is_empty() && errors == prev_errors` -> return)
  * rule "clean pass" (`ctx.undefined.is_empty()` [&& !symbols_added] -> break)
  * rule "same undefined set" ([!ctx.undefined.is_empty() &&] ctx.undefined == prev_undefined -> return)
  * pinned: the rules are skipped in the pass that creates the default segment; prev_undefined is only updated
    (std::mem::take) in an error-free pass; prev_errors = errors at the end of every pass
"""
import re
from tcommon import read, strip_comments, write_if_changed, between, balanced_block, ShapeError


def norm(s):
    return re.sub(r"\s+", " ", s).strip()


def strip_cfg_verif(src):
    tag = "#[cfg(mos_verif)]"
    while True:
        i = src.find(tag)
        if i < 0:
            return src
        j = i + len(tag)
        depth = 0
        k = j
        while k < len(src):
            ch = src[k]
            if ch in "({[":
                depth += 1
            elif ch in ")}]":
                depth -= 1
                if depth == 0 and ch == "}":
                    k += 1
                    break
            elif ch == ";" and depth == 0:
                k += 1
                break
            k += 1
        src = src[:i] + src[k:]


def translate():
    src = strip_cfg_verif(strip_comments(read("mos-core/src/codegen/mod.rs")))
    src = re.sub(r"log::trace!\((?:[^()]|\((?:[^()]|\([^()]*\))*\))*\);", "", src)
    fn = between(src, r"pub fn codegen\(", r"\n#\[cfg\(test\)\]\s*pub mod tests|\npub mod verif|\Z", "codegen()")
    # ---- MAX_ITERATIONS
    m = re.search(r"#\[cfg\(not\(test\)\)\]\s*const MAX_ITERATIONS: usize = ([^;]+);", fn)
    if not m:
        raise ShapeError("MAX_ITERATIONS (not(test)) not found")
    v = m.group(1).strip()
    if v == "usize::MAX":
        cap = None
    elif re.fullmatch(r"[0-9_]+", v):
        cap = int(v.replace("_", ""))
    else:
        raise ShapeError("MAX_ITERATIONS has unrecognised value %r" % v)
    m = re.search(r"while ctx\.pass_idx != MAX_ITERATIONS \{", fn)
    if not m:
        raise ShapeError("`while ctx.pass_idx != MAX_ITERATIONS` not found")
    body = balanced_block(fn, m.end() - 1)
    after = norm(fn[m.end() - 1 + len(body) + 2:])
    b = norm(body)
    # ---- the pass itself
    if not re.search(r"match ctx\.emit_tokens\(&ast\.main_file\(\)\.tokens\) \{ Ok\(\(\)\) => \(\), Err\(e\) => \{ errors = e\.with_code_map\(&ctx\.tree\.code_map\); \} \}", b):
        raise ShapeError("pass: emit_tokens call has unrecognised shape")
    if "ctx.after_pass()" not in b:
        raise ShapeError("pass: after_pass call missing")
    uses_added = bool(re.search(r"let symbols_added = ctx\.symbols\.node_count\(\) != symbol_count;", b))
    # ---- default segment branch and the rules
    m = re.search(r"if ctx\.segments\.is_empty\(\) \{", b)
    if not m:
        raise ShapeError("default-segment branch not found")
    i = m.end() - 1
    default_branch = balanced_block(b, i)
    rest = b[i + len(default_branch) + 2:].lstrip()
    if not rest.startswith("else {"):
        raise ShapeError("the exit rules are no longer in the else branch of `if ctx.segments.is_empty()`")
    rules = balanced_block(rest, rest.index("{"))
    tail = rest[rest.index("{") + len(rules) + 2:].strip()
    if "return" in default_branch or "break" in default_branch:
        raise ShapeError("default-segment branch leaves the loop")
    if not re.fullmatch(r"prev_errors = errors; errors = Diagnostics::default\(\)\.with_code_map\(&ctx\.tree\.code_map\); ctx\.next_pass\(\);", tail):
        raise ShapeError("end of the loop body has unrecognised shape: %s" % tail[:200])
    rule_same_errors = bool(re.search(r"if !errors\.is_empty\(\) && errors == prev_errors \{ return \(Some\(ctx\), errors\); \}", rules))
    m = re.search(r"if errors\.is_empty\(\) \{", rules)
    if not m:
        raise ShapeError("`if errors.is_empty()` not found")
    clean = balanced_block(rules, m.end() - 1)
    other = (rules[:m.start()] + rules[m.end() - 1 + len(clean) + 2:]).strip()
    other = re.sub(r"if !errors\.is_empty\(\) && errors == prev_errors \{ return \(Some\(ctx\), errors\); \}", "", other).strip()
    if other:
        raise ShapeError("unrecognised statements among the exit rules: %s" % other[:200])
    mb = re.search(r"if ctx\.undefined\.is_empty\(\)( && ctx\.changed\.is_empty\(\))?( && !symbols_added)? \{ break; \}", clean)
    rule_clean = bool(mb)
    clean_needs_no_new = bool(mb and mb.group(2))
    # since 0b9c159 symbols whose value changed in the pass are kept in `ctx.changed` (cleared by next_pass) instead of
    # `ctx.undefined`; a clean pass needs that set empty too
    clean_needs_no_changed = bool(mb and mb.group(1))
    if clean_needs_no_changed and "self.changed.clear();" not in src:
        raise ShapeError("ctx.changed is no longer cleared by next_pass")
    if clean_needs_no_new and not uses_added:
        raise ShapeError("symbols_added used but not computed as expected")
    mu = re.search(r"if (!ctx\.undefined\.is_empty\(\) && )?ctx\.undefined == prev_undefined \{", clean)
    rule_same_undef = False
    undef_needs_nonempty = False
    if mu:
        blk = balanced_block(clean, mu.end() - 1)
        rule_same_undef = bool(re.search(r"return \(Some\(ctx\), e\);", blk))
        undef_needs_nonempty = bool(mu.group(1))
    if not re.search(r"prev_undefined = std::mem::take\(&mut ctx\.undefined\);", clean):
        raise ShapeError("prev_undefined is no longer taken from ctx.undefined in an error-free pass")
    # ---- after the loop
    cap_reports = False
    mc = re.search(r"if ctx\.pass_idx == MAX_ITERATIONS \{", after)
    if mc:
        blk = balanced_block(after, mc.end() - 1)
        cap_reports = "errors.push(" in blk or "errors.extend(" in blk or "return (Some(ctx)," in blk
    if "ctx.finalize()" not in after:
        raise ShapeError("finalize() is no longer called after the loop")
    B = lambda x: "true" if x else "false"
    out = ["(* GENERATED by translate/t_c06loop.py from the pass loop of codegen() in mos-core/src/codegen/mod.rs. DO NOT EDIT. *)",
           "From Coq Require Import ZArith.",
           "Definition max_iterations : option nat := %s." % ("None" if cap is None else "Some %d%%nat" % cap),
           "Definition cap_reports_diagnostic : bool := %s." % B(cap_reports),
           "Definition rule_same_errors : bool := %s." % B(rule_same_errors),
           "Definition rule_clean_pass : bool := %s." % B(rule_clean),
           "Definition clean_needs_no_new_symbols : bool := %s." % B(clean_needs_no_new),
           "Definition clean_needs_no_changed_symbols : bool := %s." % B(clean_needs_no_changed),
           "Definition rule_same_undefined : bool := %s." % B(rule_same_undef),
           "Definition same_undefined_needs_nonempty : bool := %s." % B(undef_needs_nonempty)]
    if cap is not None and cap > 5000:
        raise ShapeError("MAX_ITERATIONS = %d is too large to be written as a nat numeral" % cap)
    fp = write_if_changed("PassLoop.v", "\n".join(out) + "\n")
    return {"file": "Gen/PassLoop.v", "fingerprint": fp, "max_iterations": cap, "rules": [rule_same_errors, rule_clean, rule_same_undef],
            "cap_reports_diagnostic": cap_reports}


if __name__ == "__main__":
    print(translate())

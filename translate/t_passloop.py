"""T-C04a: mos-core/src/codegen/mod.rs `pub fn codegen` (the pass loop) -> Gen/PassLoopConds.v

Translated: the exit/continue conditions of the loop, as boolean functions of an observation record
(errors_empty, errors_eq_prev, undefined_empty, undefined_eq_prev, changed_empty, symbols_added, segments_empty), and MAX_ITERATIONS.
Checked for shape (ShapeError = broken tie): the nesting and order of the conditions, what each branch does
(return the errors / break / return the undefined items as diagnostics / take the undefined set), the loop tail
(prev_errors = errors; errors = default; next_pass) and the not-converged exit."""
import re
from tcommon import read, strip_comments, write_if_changed, ShapeError, balanced_block

ATOMS = {
    "errors.is_empty()": "errors_empty o",
    "errors == prev_errors": "errors_eq_prev o",
    "ctx.undefined.is_empty()": "undefined_empty o",
    "ctx.undefined == prev_undefined": "undefined_eq_prev o",
    "ctx.changed.is_empty()": "changed_empty o",
    "symbols_added": "symbols_added o",
    "ctx.segments.is_empty()": "segments_empty o",
}


def squash(s):
    return re.sub(r"\s+", " ", s).strip()


def cond(expr, what):
    """a conjunction/disjunction of possibly negated atoms -> Gallina bool expression"""
    def atom(a):
        a = a.strip()
        neg = False
        while a.startswith("!"):
            neg = not neg
            a = a[1:].strip()
        if a not in ATOMS:
            raise ShapeError("%s: unknown atom %r in condition %r" % (what, a, expr))
        return ("negb (%s)" % ATOMS[a]) if neg else "(%s)" % ATOMS[a]
    ors = [" && ".join(atom(a) for a in part.split("&&")) for part in expr.split("||")]
    return " || ".join("(%s)" % o for o in ors)


def translate():
    src = strip_comments(read("mos-core/src/codegen/mod.rs"))
    # drop cfg(mos_verif) statements/blocks inside the function (hooks are add-only and guarded)
    m = re.search(r"pub fn codegen\(", src)
    if not m:
        raise ShapeError("pub fn codegen not found")
    body = balanced_block(src, src.index("{", src.index("-> (Option<CodegenContext>, Diagnostics)", m.end())))
    body = re.sub(r"#\[cfg\(mos_verif\)\]\s*\{", "__VERIF{", body)
    while "__VERIF{" in body:
        i = body.index("__VERIF{")
        inner = balanced_block(body, i + len("__VERIF"))
        body = body[:i] + body[i + len("__VERIF") + len(inner) + 2:]
    body = re.sub(r"#\[cfg\(mos_verif\)\]\s*if [^{]*\{", "__VERIFIF{", body)
    while "__VERIFIF{" in body:
        i = body.index("__VERIFIF{")
        inner = balanced_block(body, i + len("__VERIFIF"))
        body = body[:i] + body[i + len("__VERIFIF") + len(inner) + 2:]
    b = squash(body)
    mi = re.search(r"#\[cfg\(not\(test\)\)\] const MAX_ITERATIONS: usize = (\d+|usize::MAX);", b)
    if not mi:
        raise ShapeError("MAX_ITERATIONS (not(test)) not found")
    if mi.group(1) == "usize::MAX":
        raise ShapeError("MAX_ITERATIONS is unbounded")
    max_iter = int(mi.group(1))
    shape = (
        r"while ctx\.pass_idx != MAX_ITERATIONS \{ let symbol_count = ctx\.symbols\.node_count\(\); "
        r"match ctx\.emit_tokens\(&ast\.main_file\(\)\.tokens\) \{ Ok\(\(\)\) => \(\), Err\(e\) => \{ errors = e\.with_code_map\(&ctx\.tree\.code_map\); \} \} "
        r"(?:ctx\.after_pass\(\)\.expect\(\"Could not finalize pass\"\); |if let Err\(e\) = ctx\.after_pass\(\) \{ errors\.extend\(e\); \} )"   # C06: reported instead of panicking
        
        r"let symbols_added = ctx\.symbols\.node_count\(\) != symbol_count; "
        r"if (?P<segs>[^{]+) \{ (?P<mkdefault>.*?) \} else \{ "
        r"if (?P<bail>[^{]+) \{ return \(Some\(ctx\), errors\); \} "
        r"if (?P<chk>[^{]+) \{ "
        r"if (?P<done>[^{]+) \{ break; \} else \{ "
        r"if (?P<truly>[^{]+) \{ (?P<mkundef>.*?) return \(Some\(ctx\), e\); \} "
        r"prev_undefined = std::mem::take\(&mut ctx\.undefined\); \} \} \} "
        r"prev_errors = errors; errors = Diagnostics::default\(\)\.with_code_map\(&ctx\.tree\.code_map\); ctx\.next_pass\(\); \} "
        r"if ctx\.pass_idx == MAX_ITERATIONS \{ let mut errors = prev_errors; errors\.push\(Diagnostic::error\(\)\.with_message\(format!\( "
        r"\"the program did not converge after \{\} passes\", MAX_ITERATIONS \)\)\); return \(Some\(ctx\), errors\); \} "
        r"if let Err\(e\) = ctx\.finalize\(\) \{ errors\.extend\(e\); \} \(Some\(ctx\), errors\)$")
    m = re.search(shape, b)
    if not m:
        raise ShapeError("the pass loop of codegen() has an unrecognised shape")
    mk = m.group("mkundef")
    if not re.search(r"\.map\(\|item\| \{ let mut diag = Diagnostic::error\(\) \.with_message\(format!\(\"unknown identifier: \{\}\", item\.id\)\); "
                     r"if let Some\(span\) = item\.span \{ diag = diag\.with_labels\(vec!\[span\.to_label\(\)\]\); \} diag \}\)", mk):
        raise ShapeError("the truly-undefined diagnostics no longer carry item.span")
    if "ctx.segments .insert(\"default\".into()" not in m.group("mkdefault") and "insert(\"default\".into()" not in m.group("mkdefault"):
        raise ShapeError("default segment creation not recognised")
    conds = {k: cond(m.group(k), k) for k in ("segs", "bail", "chk", "done", "truly")}
    out = []
    out.append("(* GENERATED by translate/t_passloop.py from mos-core/src/codegen/mod.rs (pub fn codegen) -- do not edit *)")
    out.append("From Coq Require Import Bool.")
    out.append("Record obs := mkObs { errors_empty : bool; errors_eq_prev : bool; undefined_empty : bool; undefined_eq_prev : bool;")
    out.append("                      changed_empty : bool; symbols_added : bool; segments_empty : bool }.")
    out.append("Definition cond_no_segments (o : obs) : bool := %s." % conds["segs"])
    out.append("Definition cond_bail (o : obs) : bool := %s." % conds["bail"])
    out.append("Definition cond_check_undefined (o : obs) : bool := %s." % conds["chk"])
    out.append("Definition cond_done (o : obs) : bool := %s." % conds["done"])
    out.append("Definition cond_truly_undefined (o : obs) : bool := %s." % conds["truly"])
    out.append("Definition max_iterations : nat := %d." % max_iter)
    text = "\n".join(out) + "\n"
    fp = write_if_changed("PassLoopConds.v", text)
    return {"fingerprint": fp, "max_iterations": max_iter, "conds": conds}

"""C06: the places where mos-core can panic / recurse without bound on user input -> Gen/C06Sites.v

For every site the translator recognises the guarded (repaired) and the unguarded (original) shape of the Rust
fragment and emits a boolean/option constant; model/Sites.v is parameterised by these constants, so the theorems of
props/C06.v are re-checked against what the source says now.  Anything else raises ShapeError.
  codegen/mod.rs   Token::Align arm (guard `align <= 0`, `%` vs rem_euclid, the padding cap)
                   Token::Loop arm (`for index in 0..loop_count`)
                   Token::Import arm (cycle detection before the recursive emit_tokens)
                   Token::Segment arm / `.define bank|segment` (names checked for a period before Identifier::new)
                   with_dummy_segment (restores an enclosing dummy segment)
                   Token::MacroInvocation arm (recursive emit_tokens of the definition's block, no depth limit)
  parser/identifier.rs  Identifier::new (assert on '.')
  codegen/segment.rs    Segment::emit (`self.pc + bytes.len()`), target_pc (`as_i64() + target_offset()`)
  codegen/program_counter.rs  From<i64> (`val as usize`), Add<usize>
"""
import re
from tcommon import read, strip_comments, write_if_changed, between, balanced_block, ShapeError


def norm(s):
    return re.sub(r"\s+", " ", s).strip()


def arm(src, start_pat, what):
    m = re.search(start_pat.replace(" ", r"\s*"), src)
    if not m:
        raise ShapeError("%s: arm not found" % what)
    i = src.index("{", m.end() - 1) if src[m.end() - 1] != "{" else m.end() - 1
    return norm(balanced_block(src, i))


def translate():
    cg = strip_comments(read("mos-core/src/codegen/mod.rs"))
    cg = re.sub(r"log::trace!\((?:[^()]|\((?:[^()]|\([^()]*\))*\))*\);", "", cg)
    B = lambda x: "true" if x else "false"
    out = {}
    # ---------------- .align
    a = arm(cg, r"Token::Align \{ value, \.\. \} => \{", "Token::Align")
    if not a.startswith("if let Some(pc) = self.try_current_target_pc() { if let Some(align) = self.evaluate_expression_as_i64(value, true)? {"):
        raise ShapeError("Token::Align: head has unrecognised shape")
    guard = bool(re.search(r"if align <= 0 \{ return Err\(Diagnostic::error\(\)", a))
    if re.search(r"let padding = \(align - \(pc\.as_i64\(\) % align\)\) as usize;", a):
        euclid, cap = False, None
    else:
        m = re.search(r"let padding = \(align - pc\.as_i64\(\)\.rem_euclid\(align\)\)(?:\.min\((0x[0-9a-fA-F]+|\d+)\))? as usize;", a)
        if not m:
            raise ShapeError("Token::Align: padding formula has unrecognised shape")
        euclid, cap = True, (int(m.group(1), 0) if m.group(1) else None)
    if not re.search(r"let mut bytes = Vec::new\(\); bytes\.resize\(padding, 0u8\); self\.emit\(value\.span, &bytes\)\?;", a):
        raise ShapeError("Token::Align: emission has unrecognised shape")
    out["align_guard_positive"] = B(guard)
    out["align_rem_euclid"] = B(euclid)
    out["align_cap"] = "None" if cap is None else "Some %d" % cap
    # ---------------- .loop
    l = arm(cg, r"Token::Loop \{ expr, loop_scope, block, \.\. \} => \{", "Token::Loop")
    ml = re.match(r"if let Some\(loop_count\) = self\.evaluate_expression_as_i64\(expr, true\)\? \{ "
                  r"(if loop_count > MAX_LOOP_ITERATIONS - self\.loop_iterations \{ return Err\(Diagnostic::error\(\)[^;]*; \} "
                  r"self\.loop_iterations \+= loop_count(\.max\(0\))?; )?for index in 0\.\.loop_count \{", l)
    if not ml:
        raise ShapeError("Token::Loop: iteration has unrecognised shape")
    if ml.group(1):
        mc = re.search(r"const MAX_LOOP_ITERATIONS: i64 = (0x[0-9a-fA-F]+|\d+);", cg)
        if not mc or "self.loop_iterations = 0;" not in cg:
            raise ShapeError("MAX_LOOP_ITERATIONS / the per-pass reset of loop_iterations not found")
        out["loop_count_limit"] = "Some %d" % int(mc.group(1), 0)      # budget of all loops of one pass together
        # a negative count runs no iteration and must not be charged (it would refund budget to later loops)
        out["loop_charge_clamped"] = B(bool(ml.group(2)))
    else:
        out["loop_count_limit"] = "None"          # no bound on the number of iterations
        out["loop_charge_clamped"] = B(True)
    # ---------------- nesting depth of emit_token (blocks, ifs, loops, macro invocations, imports, segment / label / test blocks)
    mn = re.search(r"fn emit_token\(&mut self, token: &Token\) -> CoreResult<\(\)> \{ match Self::nesting_span\(token\) \{ Some\(span\) => \{ "
                   r"(if self\.nesting_exhausted \{ return Ok\(\(\)\); \} )?"
                   r"(?:let too_deep = self\.nesting_depth >= MAX_NESTING_DEPTH; if too_deep \|\| self\.containers_entered >= MAX_CONTAINERS_PER_PASS \{ self\.nesting_exhausted = true; "
                   r"if self\.current_segment\.as_ref\(\)\.map\(\|s\| s\.as_str\(\)\) == Some\(\"\$dummy\"\) \{ self\.exhausted_in_dummy = true; return Ok\(\(\)\); \} "
                   r"let message = if too_deep \{[^;]*\} else \{[^;]*\}; return Err\(Diagnostic::error\(\)[^;]*; \} self\.containers_entered \+= 1; "
                   r"|if self\.nesting_depth >= MAX_NESTING_DEPTH \{ (?:if self\.current_segment\.as_ref\(\)\.map\(\|s\| s\.as_str\(\)\) == Some\(\"\$dummy\"\) \{ return Ok\(\(\)\); \} )?"
                   r"return Err\(Diagnostic::error\(\)[^;]*; \} )"
                   r"self\.nesting_depth \+= 1; let result = self\.emit_token_impl\(token\); "
                   r"self\.nesting_depth -= 1; result \} None => self\.emit_token_impl\(token\), \} \}", norm(cg))
    if mn:
        md = re.search(r"const MAX_NESTING_DEPTH: usize = (\d+);", cg)
        ns = norm(between(cg, r"fn nesting_span\(token: &Token\) -> Option<Span> \{", r"\n    \}", "nesting_span"))
        kinds = re.findall(r"Token::(\w+) \{", ns)
        if not md or sorted(kinds) != sorted(["Braces", "If", "Import", "Label", "Loop", "MacroInvocation", "Segment", "Test"]):
            raise ShapeError("nesting_span does not cover exactly the tokens that contain tokens: %s" % kinds)
        out["nesting_depth_limit"] = "Some %d%%nat" % int(md.group(1))
        mcn = re.search(r"const MAX_CONTAINERS_PER_PASS: usize = (0x[0-9a-fA-F]+|\d+);", cg)
        budget = bool(mn.group(1)) and mcn and "self.containers_entered = 0; self.nesting_exhausted = false;" in norm(cg)
        # after the first refusal nothing descends any more in this pass, and a pass enters at most this many containers
        out["container_budget"] = ("Some %d" % int(mcn.group(1), 0)) if budget else "None"
    elif re.search(r"fn emit_token\(&mut self, token: &Token\) -> CoreResult<\(\)> \{ match token \{", norm(cg)):
        out["nesting_depth_limit"] = "None"
        out["container_budget"] = "None"
    else:
        raise ShapeError("emit_token: the nesting guard has unrecognised shape")
    # ---------------- import
    i = arm(cg, r"Token::Import \{ args, import_scope, filename, block, resolved_path, \.\. \} => \{", "Token::Import")
    cyc = bool(re.search(r"if imported_name == self\.tree\.main_file\(\)\.file\.name\(\) \|\| self\.import_stack\.contains\(&imported_name\) \{ return Err\(", i))
    pushed = bool(re.search(r"self\.import_stack\.push\(imported_name\); let result = self\.with_scope\(import_scope, block\.as_ref\(\), \|s\| \{.*?s\.emit_tokens\(&imported_file_tokens\) \}\); "
                            r"self\.import_stack\.pop\(\); result\?;", i))
    plain = bool(re.search(r"self\.with_scope\(import_scope, block\.as_ref\(\), \|s\| \{.*?s\.emit_tokens\(&imported_file_tokens\) \}\)\?;", i))
    if not (pushed or plain):
        raise ShapeError("Token::Import: recursive emission has unrecognised shape")
    out["import_cycle_detected"] = B(cyc and pushed)
    # ---------------- macro invocation: recursion into the definition's block
    mi = arm(cg, r"Token::MacroInvocation \{ id: name, args, \.\. \} => \{", "Token::MacroInvocation")
    if "s.emit_tokens(&def.block)?;" not in mi:
        raise ShapeError("Token::MacroInvocation: emission of the block has unrecognised shape")
    out["macro_depth_limit"] = "None"      # (no limit of its own; see nesting_depth_limit)
    # ---------------- names
    seg = arm(cg, r"Token::Segment \{ id, block, \.\. \} => \{", "Token::Segment")
    seg_checked = bool(re.search(r"if let Some\(segment_name\) = self\.evaluate_expression_as_string\(id, true\)\? \{ if segment_name\.contains\('\.'\) \{ return Err\(", seg))
    seg_plain = bool(re.search(r"self \.evaluate_expression_as_string\(id, true\)\? \.map\(Identifier::new\)", seg))
    if not (seg_checked or seg_plain):
        raise ShapeError("Token::Segment: name construction has unrecognised shape")
    n_checked = len(re.findall(r'let name = extractor\.get_identifier\(self, "name"\)\?;', cg))
    n_plain = len(re.findall(r'let name = Identifier::new\(extractor\.get_string\(self, "name"\)\?\);', cg))
    if n_checked + n_plain != 2:
        raise ShapeError(".define bank/segment: name construction has unrecognised shape")
    bank_checked = bool(re.search(r'opts\.bank = extractor\.try_get_identifier\(self, "bank"\)\?;', norm(cg)))
    bank_plain = bool(re.search(r'opts\.bank = extractor\.try_get_string\(self, "bank"\)\?\.map\(Identifier::new\);', norm(cg)))
    if not (bank_checked or bank_plain):
        raise ShapeError("segment option `bank`: construction has unrecognised shape")
    ce = norm(strip_comments(read("mos-core/src/codegen/config_extractor.rs")))
    ce_ok = bool(re.search(r"fn to_identifier\(&self, key: &str, name: String\) -> CoreResult<Identifier> \{ if name\.contains\('\.'\) \{.*?Err\(Diagnostic::error\(\).*?\} else \{ Ok\(Identifier::new\(name\)\) \} \}", ce))
    out["names_checked_for_period"] = B(seg_checked and n_checked == 2 and bank_checked and ce_ok)
    idr = norm(strip_comments(read("mos-core/src/parser/identifier.rs")))
    out["identifier_new_asserts"] = B(bool(re.search(r"pub fn new<S: Into<String>>\(s: S\) -> Self \{ let s = s\.into\(\); assert!\( !s\.contains\('\.'\),", idr)))
    # ---------------- dummy segment
    d = norm(between(cg, r"fn with_dummy_segment<F: FnOnce\(&mut Self\) -> CoreResult<\(\)>>\(\s*&mut self,\s*f: F,\s*\) -> CoreResult<\(\)> \{", r"\n    \}", "with_dummy_segment"))
    restores = bool(re.search(r"let prev_dummy = self \.segments \.insert\(\"\$dummy\"\.into\(\), Segment::new\(SegmentOptions::default\(\)\)\);.*?match prev_dummy \{ Some\(dummy\) => \{ self\.segments\.insert\(\"\$dummy\"\.into\(\), dummy\); \} None => \{ self\.segments\.remove\(&Identifier::new\(\"\$dummy\"\)\); "
                             r"(?:if self\.exhausted_in_dummy \{ self\.exhausted_in_dummy = false; self\.nesting_exhausted = false; \} )?\} \}", d))
    plain = bool(re.search(r"self\.segments \.insert\(\"\$dummy\"\.into\(\), Segment::new\(SegmentOptions::default\(\)\)\);.*?let result = f\(self\); self\.segments\.remove\(&Identifier::new\(\"\$dummy\"\)\);", d))
    if not (restores or plain):
        raise ShapeError("with_dummy_segment has unrecognised shape")
    out["dummy_segment_restored"] = B(restores)
    # ---------------- program counter arithmetic (unchecked: known finding)
    sg = norm(strip_comments(read("mos-core/src/codegen/segment.rs")))
    sg = re.sub(r"log::trace!\((?:[^()]|\((?:[^()]|\([^()]*\))*\))*\);", "", sg)
    if "let end = self.pc + bytes.len();" in sg:
        out["emit_end_checked"] = B(False)
    elif re.search(r"checked_add\(bytes\.len\(\)\)", sg):
        out["emit_end_checked"] = B(True)
    else:
        raise ShapeError("Segment::emit: end computation has unrecognised shape")
    if "((self.pc.as_i64() + self.target_offset()) as usize).into()" in sg and \
       "self.options.target_address.as_i64() - self.options.initial_pc.as_i64()" in sg:
        out["target_pc_checked"] = B(False)
    elif "wrapping_add" in sg and "wrapping_sub" in sg:
        out["target_pc_checked"] = B(True)
    else:
        raise ShapeError("Segment::target_pc / target_offset have unrecognised shape")
    pcsrc = norm(strip_comments(read("mos-core/src/codegen/program_counter.rs")))
    if "impl From<i64> for ProgramCounter { fn from(val: i64) -> Self { Self(val as usize) } }" not in pcsrc:
        raise ShapeError("ProgramCounter::from(i64) has unrecognised shape")
    if "fn add(self, rhs: usize) -> Self::Output { Self(self.0 + rhs) }" in pcsrc:
        out["pc_add_checked"] = B(False)
    elif "wrapping_add(rhs)" in pcsrc:
        out["pc_add_checked"] = B(True)
    else:
        raise ShapeError("ProgramCounter + usize has unrecognised shape")
    # ---------------- range checks where a value enters the program counter
    pcd = arm(cg, r"Token::ProgramCounterDefinition \{ value, \.\. \} => \{", "Token::ProgramCounterDefinition")
    if not pcd.startswith("if let Some(pc) = self.evaluate_expression_as_i64(value, true)? {") or "seg.set_pc(pc);" not in pcd:
        raise ShapeError("Token::ProgramCounterDefinition has unrecognised shape")
    mr = re.search(r"if !\(0\.\.=(0x[0-9a-fA-F]+|\d+)\)\.contains\(&pc\) \{ return Err\(", pcd)
    # the range check must come before the segment is consulted (pass 0 has none)
    pc_checked = bool(mr) and pcd.index(mr.group(0)) < pcd.index("self.try_current_segment_mut()")
    reloc = bool(re.search(r"if pc \+ seg\.target_offset\(\) < 0 \{ return Err\(", pcd)) and pcd.index("seg.target_offset() < 0") < pcd.index("seg.set_pc(pc);")
    ncg = norm(cg)
    start_checked = 'opts.initial_pc = extractor.check_address("start", val)?.into()' in ncg
    start_plain = "opts.initial_pc = val.into()" in ncg
    tgt_checked = 'opts.target_address = extractor.check_address("pc", target)?.into()' in ncg
    tgt_plain = "Some(target) => opts.target_address = target.into()," in ncg
    if not (start_checked or start_plain) or not (tgt_checked or tgt_plain):
        raise ShapeError("segment options start / pc: construction of the program counters has unrecognised shape")
    ca = re.search(r"pub fn check_address\(&self, key: &str, address: i64\) -> CoreResult<i64> \{ if \(0\.\.=(0x[0-9a-fA-F]+|\d+)\)\.contains\(&address\) \{ Ok\(address\) \} else \{", ce)
    seg_checked = start_checked and tgt_checked and bool(ca)
    out["pc_values_checked"] = B(pc_checked and seg_checked)
    out["pc_limit"] = "%d" % (int(mr.group(1), 0) if mr else 0)                 # `* =`: an address or the end of the address space
    out["segment_address_limit"] = "%d" % (int(ca.group(1), 0) if ca else 0)     # start / pc options: an address
    out["relocated_pc_checked"] = B(reloc)
    bra = norm(between(cg, r"Token::Instruction\(i\) => \{", r"Token::Label \{", "instruction arm"))
    if "let mut offset = target_pc.wrapping_sub(cur_pc);" in bra:
        out["branch_sub_checked"] = B(True)
    elif "let mut offset = target_pc - cur_pc;" in bra:
        out["branch_sub_checked"] = B(False)
    else:
        raise ShapeError("branch arm: offset computation has unrecognised shape")
    # ---------------- bank size limit
    mb = re.search(r"if !\(0\.\.=MAX_BANK_SIZE\)\.contains\(&size\) \{ return Err\(", ncg)
    mbc = re.search(r"const MAX_BANK_SIZE: i64 = (0x[0-9a-fA-F_]+|[\d_]+);", cg)
    if mb and mbc:
        out["bank_size_limit"] = "Some %d" % int(mbc.group(1).replace("_", ""), 0)
    elif re.search(r"if size < 0 \{ return Err\(", ncg):
        out["bank_size_limit"] = "None"
    else:
        raise ShapeError(".define bank: size check has unrecognised shape")
    # ---------------- parser: nesting guard, and the two places that parsed the same text twice per nesting level
    ps = norm(strip_comments(read("mos-core/src/parser/mod.rs")))
    ast = norm(strip_comments(read("mos-core/src/parser/ast.rs")))
    guards = ["nested(many0(alt((statement, error_in_block))))" in ps, "tuple((ws(char('(')), nested(expression), ws(char(')'))))" in ps,
              "opt(nested(expression_arg_list))," in ps]
    mp = re.search(r"pub const MAX_NESTING_DEPTH: usize = (\d+);", ast)
    nest_fn = re.search(r"fn nested<'a, F, T>\(mut parser: F\) -> impl FnMut\(LocatedSpan<'a>\) -> IResult<'a, T> where F: FnMut\(LocatedSpan<'a>\) -> IResult<'a, T>, \{ "
                        r"move \|input\| \{ let state = input\.extra\.clone\(\); let result = if state\.shared_state\(\)\.enter_nesting\(\) \{ parser\(input\) \} else \{.*?"
                        r"Err\(nom::Err::Error\(.*?\)\)\) \}; state\.shared_state\(\)\.leave_nesting\(\); result \} \}", ps)
    enter = "pub fn enter_nesting(&mut self) -> bool { self.nesting_depth += 1; self.nesting_depth <= MAX_NESTING_DEPTH }" in ast
    if all(guards) and mp and nest_fn and enter:
        out["parser_nesting_limit"] = "Some %d%%nat" % int(mp.group(1))
    elif not any(guards):
        out["parser_nesting_limit"] = "None"
    else:
        raise ShapeError("parser: the nesting guard covers only some of block / expression_parens / fn_call arguments")
    out["factor_retry_guarded"] = B("preceded( peek(one_of(\"!-\")), tuple(( opt(ws(char('!'))), opt(ws(char('-'))), expression_factor_inner, )), )" in ps)
    if not out["factor_retry_guarded"] == "true" and "tuple(( opt(ws(char('!'))), opt(ws(char('-'))), expression_factor_inner, ))" not in ps:
        raise ShapeError("expression_factor: flags alternative has unrecognised shape")
    if "many0(tuple((ws(parse_item()), ws(char(','))))), ws(parse_item())," in ps:
        out["arg_list_items_parsed_once"] = B(False)
    elif re.search(r"let \(mut input, mut item\) = ws\(parse_item\(\)\)\(input\)\?; let mut result: Vec<_> = vec!\[\]; loop \{ match ws\(char\(','\)\)\(input\.clone\(\)\) \{ "
                   r"Ok\(\(after_comma, comma\)\) => \{ let \(next_input, next_item\) = ws\(parse_item\(\)\)\(after_comma\)\?;", ps):
        out["arg_list_items_parsed_once"] = B(True)
    else:
        raise ShapeError("arg_list has unrecognised shape")
    # ---------------- function callbacks: a Mutex around the callback makes a nested call of the same function deadlock
    ev = norm(strip_comments(read("mos-core/src/codegen/evaluator.rs")))
    if "pub type FunctionMap = HashMap<String, Arc<Mutex<dyn FunctionCallback + Send + Sync>>>;" in ev:
        out["function_callbacks_locked"] = B(True)
    elif "pub type FunctionMap = HashMap<String, Arc<dyn FunctionCallback + Send + Sync>>;" in ev and "callback.lock()" not in ev:
        out["function_callbacks_locked"] = B(False)
    else:
        raise ShapeError("FunctionMap has unrecognised shape")
    # ---------------- a symbol without a span that clashes with a definition of the program (segments.<name>.start / .end)
    if 'let span = symbol.span.expect("no span provided");' in ncg:
        clash = False
    elif "if let Some(span) = symbol.span.or(existing.span) { diag = diag.with_labels(vec![span.to_label()]); } return Err(diag.into());" in ncg:
        clash = True
    else:
        raise ShapeError("add_symbol: the redefinition error has unrecognised shape")
    if 'ctx.after_pass().expect("Could not finalize pass");' in ncg:
        after = False
    elif "if let Err(e) = ctx.after_pass() { errors.extend(e); }" in ncg:
        after = True
    else:
        raise ShapeError("codegen(): the call of after_pass has unrecognised shape")
    keeps = bool(re.search(r"self\.segments = segments; if errors\.is_empty\(\) \{ Ok\(\(\)\) \} else \{ Err\(errors\) \}", ncg))
    out["spanless_clash_reported"] = B(clash and after and keeps)
    lines = ["(* GENERATED by translate/t_c06sites.py from mos-core/src/{codegen/mod.rs,codegen/segment.rs,codegen/program_counter.rs,"
             "codegen/config_extractor.rs,parser/identifier.rs}. DO NOT EDIT. *)",
             "From Coq Require Import ZArith.", "Open Scope Z_scope."]
    types = {"align_cap": "option Z", "loop_count_limit": "option Z", "macro_depth_limit": "option nat", "pc_limit": "Z", "segment_address_limit": "Z", "nesting_depth_limit": "option nat", "bank_size_limit": "option Z", "container_budget": "option Z",
             "parser_nesting_limit": "option nat"}
    for k in sorted(out):
        lines.append("Definition %s : %s := %s." % (k, types.get(k, "bool"), out[k]))
    fp = write_if_changed("C06Sites.v", "\n".join(lines) + "\n")
    out.update({"file": "Gen/C06Sites.v", "fingerprint": fp})
    return out


if __name__ == "__main__":
    print(translate())

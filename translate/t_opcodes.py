"""T1/T2/T5a: opcodes.rs + mnemonic.rs + the branch arm of codegen/mod.rs -> Gen/OpcodeTable.v

Translated:
  * enum Mnemonic (variant list, in order)
  * the two `alt` lists implied_mnemonic / mnemonic: (tag, variant) in order
  * every `(MM::m, AM::am, suffix) => v![(op, len), ...]` arm, in source order
  * the candidate selection loop: arms `0 =>`, `1 if operand <cmp> <lim> =>`, `2 =>`
  * the branch arm of emit_token: set of branch mnemonics, `+ k`, the inclusive/exclusive
    range, the `offset += 256` fix-up, the `target_pc == 0` escape
"""
import re
from tcommon import read, strip_comments, write_if_changed, between, ShapeError

AMS = ["AbsoluteOrZp", "Immediate", "Implied", "Indirect", "OuterIndirect"]


def translate():
    mn_src = strip_comments(read("mos-core/src/parser/mnemonic.rs"))
    enum_body = between(mn_src, r"pub enum Mnemonic\s*\{", r"\}", "Mnemonic enum")
    mns = [x.strip() for x in enum_body.split(",") if x.strip()]
    for m in mns:
        if not re.fullmatch(r"[A-Z][a-z]{2}", m):
            raise ShapeError("Mnemonic enum: unexpected variant %r" % m)

    def alt_list(fname):
        body = between(mn_src, r"fn %s\(input: LocatedSpan\) -> IResult<Mnemonic>\s*\{" % fname, r"\n\}", fname)
        items = re.findall(r'parse_mnemonic!\(\s*"([a-z]+)"\s*,\s*Mnemonic::(\w+)\s*\)', body)
        leftover = re.sub(r'parse_mnemonic!\(\s*"[a-z]+"\s*,\s*Mnemonic::\w+\s*\)', "", body)
        leftover = re.sub(r"alt\(\(|\)\)|\(input\)|[\s,()]", "", leftover)
        if leftover:
            raise ShapeError("%s: unexpected structure %r" % (fname, leftover[:40]))
        for tag, var in items:
            if var not in mns:
                raise ShapeError("%s: unknown variant %s" % (fname, var))
        return items

    implied = alt_list("implied_mnemonic")
    full = alt_list("mnemonic")
    pm = re.search(r"macro_rules! parse_mnemonic \{(.*?)\n\}", mn_src, re.S)
    if not pm or "tag_no_case($input)" not in pm.group(1):
        raise ShapeError("parse_mnemonic!: expected map(tag_no_case($input), ..)")

    src = strip_comments(read("mos-core/src/codegen/opcodes.rs"))
    body = between(src, r"let possible_opcodes[^=]*=\s*match \(mnemonic, am, suffix\)\s*\{", r"\n\s*_ =>", "opcode table")
    rows = []
    arm_re = re.compile(
        r"\(MM::(\w+),\s*AM::(\w+),\s*(None|Some\(IndexRegister::([XY])\))\)\s*=>\s*v!\[(.*?)\]\s*,", re.S
    )
    pos = 0
    for m in arm_re.finditer(body):
        if body[pos : m.start()].strip():
            raise ShapeError("opcode table: unrecognised text %r" % body[pos : m.start()].strip()[:60])
        pos = m.end()
        mn, am, _, reg, cands = m.groups()
        if mn not in mns or am not in AMS:
            raise ShapeError("opcode table: unknown key %s/%s" % (mn, am))
        cs = re.findall(r"\(\s*0x([0-9a-fA-F]+)\s*,\s*(\d+)\s*\)", cands)
        if re.sub(r"\(\s*0x[0-9a-fA-F]+\s*,\s*\d+\s*\)|[\s,]", "", cands):
            raise ShapeError("opcode table: bad candidate list %r" % cands)
        rows.append((mn, am, reg, [(int(a, 16), int(b)) for a, b in cs]))
    if body[pos:].strip():
        raise ShapeError("opcode table: trailing text %r" % body[pos:].strip()[:60])
    tail = src[src.index("_ =>", src.index("let possible_opcodes")) :]
    if not re.match(r"_ =>\s*\{\s*return Err\(\(\)\);\s*\}", tail):
        raise ShapeError("opcode table: default arm is not `return Err(())`")

    # selection loop
    loop = between(src, r"for \(opcode, operand_length\) in possible_opcodes\s*\{", r"\n    Err\(\(\)\)", "selection loop")
    sel = re.sub(r"\s+", " ", loop).strip()
    m = re.fullmatch(
        r"match operand_length \{ 0 => return Ok\(v!\[opcode\]\), "
        r"1 if operand (<|<=) (\d+) => return Ok\(v!\[opcode, operand as u8\]\), "
        r"2 => \{ let val = \(operand as u16\)\.to_le_bytes\(\); return Ok\(v!\[opcode, val\[0\], val\[1\]\]\); \} "
        r"_ => \(\), \} \}",
        sel,
    )
    if not m:
        raise ShapeError("selection loop: unrecognised shape: %s" % sel[:200])
    zp_cmp, zp_lim = m.group(1), int(m.group(2))

    # branch arm in emit_token
    cg = strip_comments(read("mos-core/src/codegen/mod.rs"))
    ins = between(cg, r"Token::Instruction\(i\) => \{", r"Token::Label \{", "instruction arm")
    bm = re.search(r"let value = match &i\.mnemonic\.data \{(.*?)=> \{", ins, re.S)
    if not bm:
        raise ShapeError("instruction arm: branch mnemonic list not found")
    branch_mns = re.findall(r"Mnemonic::(\w+)", bm.group(1))
    if re.sub(r"Mnemonic::\w+|[\s|]", "", bm.group(1)):
        raise ShapeError("instruction arm: unexpected branch pattern")
    bra = re.sub(r"\s+", " ", ins[bm.end():])
    m = re.search(
        r"let target_pc = value as i64; let cur_pc = \(self \.try_current_target_pc\(\) "
        r"\.unwrap_or_else\(\|\| target_pc\.into\(\)\) \+ (\d+)\) \.as_i64\(\); "
        r"let mut offset = target_pc(?: - cur_pc|(\.wrapping_sub\(cur_pc\))); "
        r"if \((-?\d+)(\.\.=|\.\.)(-?\d+)\)\.contains\(&offset\) \{ if offset < 0 \{ offset \+= (\d+); \} offset as i64 \} "
        r"(?:else if target_pc == (\d+) \{ 0 \} )?else \{ (?:self\.emit\(full_span, &\[((?:\d+(?:, )?)*)\]\)\?; )?return Err\(",
        bra,
    )
    if not m:
        raise ShapeError("instruction arm: branch computation has unrecognised shape: %s" % bra[:300])
    # C06 (program counter range fix): `target_pc.wrapping_sub(cur_pc)` and a wrapping `ProgramCounter + usize` no longer panic
    sub_wraps = bool(m.group(2))
    plus, rlo, rop, rhi, fix = int(m.group(1)), int(m.group(3)), m.group(4), int(m.group(5)), int(m.group(6))
    # the `target_pc == 0` escape (a branch to address 0 was never rejected); absent since the repair
    esc = int(m.group(7)) if m.group(7) is not None else None
    # bytes still emitted for a branch that is too far (none on older trees)
    too_far_bytes = [int(x) for x in m.group(8).split(", ")] if m.group(8) else []
    pcsrc = re.sub(r"\s+", " ", strip_comments(read("mos-core/src/codegen/program_counter.rs")))
    if "fn add(self, rhs: usize) -> Self::Output { Self(self.0 + rhs) }" in pcsrc:
        add_wraps = False
    elif "fn add(self, rhs: usize) -> Self::Output { Self(self.0.wrapping_add(rhs)) }" in pcsrc:
        add_wraps = True
    else:
        raise ShapeError("ProgramCounter + usize has unrecognised shape")
    rhi_incl = rhi if rop == "..=" else rhi - 1
    if not re.search(r"\} _ => value, \};", bra):
        raise ShapeError("instruction arm: non-branch value arm not `_ => value`")
    em = re.search(
        r"match get_opcode_bytes\(i\.mnemonic\.data, am, suffix, value\) \{ "
        r"Ok\(bytes\) => self\.emit\(full_span, &bytes\)\?, "
        r"Err\(\(\)\) => \{ self\.emit\(full_span, &\[(\d+)\]\)\?; return Err\(",
        bra,
    )
    if not em:
        raise ShapeError("instruction arm: emission match has unrecognised shape")
    invalid_byte = int(em.group(1))
    if not re.search(r"None => Some\(\(0, AddressingMode::Implied, None\)\)", re.sub(r"\s+", " ", ins)):
        raise ShapeError("instruction arm: missing-operand default changed")

    out = []
    out.append("(* GENERATED by translate/t_opcodes.py from mos-core/src/codegen/opcodes.rs, parser/mnemonic.rs, codegen/mod.rs. DO NOT EDIT. *)")
    out.append("From Coq Require Import List NArith ZArith String.\nImport ListNotations.\nOpen Scope N_scope.")
    out.append("Inductive mnemonic := " + " | ".join(mns) + ".")
    out.append("Inductive am := " + " | ".join(AMS) + ".\nInductive reg := X | Y.")
    out.append("Definition all_mnemonics : list mnemonic := [" + "; ".join(mns) + "].")
    out.append("Definition rows : list (mnemonic * am * option reg * list (N * nat)) := [")
    out.append(
        ";\n".join(
            "  (%s, %s, %s, [%s])"
            % (mn, am, ("Some " + reg) if reg else "None", "; ".join("(%d, %d%%nat)" % c for c in cs))
            for mn, am, reg, cs in rows
        )
    )
    out.append("].")
    out.append("Inductive cmp := CLt | CLe.")
    out.append("Definition zp_cmp : cmp := %s." % ("CLt" if zp_cmp == "<" else "CLe"))
    out.append("Definition zp_limit : Z := %d%%Z." % zp_lim)
    out.append("Definition branch_mnemonics : list mnemonic := [" + "; ".join(branch_mns) + "].")
    out.append("Definition branch_plus : Z := %d%%Z." % plus)
    out.append("Definition branch_lo : Z := (%d)%%Z." % rlo)
    out.append("Definition branch_hi : Z := (%d)%%Z." % rhi_incl)
    out.append("Definition branch_fix : Z := %d%%Z." % fix)
    out.append("Definition branch_escape : option Z := %s." % ("None" if esc is None else "Some (%d)%%Z" % esc))
    out.append("Definition branch_add_wraps : bool := %s." % ("true" if add_wraps else "false"))
    out.append("Definition branch_sub_wraps : bool := %s." % ("true" if sub_wraps else "false"))
    out.append("Definition invalid_instruction_byte : N := %d." % invalid_byte)
    out.append("Definition branch_too_far_bytes : list N := [%s]." % "; ".join(str(b) for b in too_far_bytes))
    out.append("Open Scope string_scope.")
    out.append(
        "Definition implied_mnemonic_alt : list (string * mnemonic) := ["
        + "; ".join('("%s", %s)' % (t, v) for t, v in implied)
        + "]."
    )
    out.append(
        "Definition mnemonic_alt : list (string * mnemonic) := ["
        + "; ".join('("%s", %s)' % (t, v) for t, v in full)
        + "]."
    )
    text = "\n".join(out) + "\n"
    fp = write_if_changed("OpcodeTable.v", text)
    return {"file": "Gen/OpcodeTable.v", "fingerprint": fp, "rows": len(rows), "mnemonics": len(mns)}


if __name__ == "__main__":
    print(translate())

"""T5: codegen/mod.rs (pass loop, label / scope / loop / macro / align / data arms), segment.rs, symbols.rs
-> Gen/CodegenConsts.v

Translated (value) or pinned (shape; a different shape raises ShapeError = broken tie):
  * SegmentOptions::default, CodegenOptions::default pc, the bounds test of Segment::emit, target_pc / target_offset
  * the pass loop of codegen(): order of the exit tests, whether `break` also requires that no symbol was added
    during the pass, whether the "truly undefined" exit requires a non-empty set, MAX_ITERATIONS outside tests
  * add_symbol: the redefinition test, "changed => maybe_require_new_pass", "variables never require a pass"
  * label arm: the value is try_current_target_pc(); with_scope: `-` before / `+` after with the target pc
  * loop arm: 0..loop_count, one scope `<loop_scope>_<index>` per iteration, `index` added as Constant; nothing is removed
  * macro arm: scope name `$macro_<n>`, counter reset in next_pass
  * align arm: align <= 0 is an error, padding = min(align - pc.rem_euclid(align), cap); data arm: u8/u16/u32 little endian
  * register_all_segment_symbols: segments.<name>.start/.end = range().start/.end
"""
import re
from tcommon import read, strip_comments, write_if_changed, between, ShapeError


def norm(s):
    return re.sub(r"\s+", " ", s).strip()


def need(pat, txt, what):
    m = re.search(pat, txt)
    if not m:
        raise ShapeError("%s: unrecognised shape (expected /%s/)" % (what, pat[:90]))
    return m


def strip_cfg_verif(src):
    """remove every item guarded by #[cfg(mos_verif)] (hooks are add-only and compiled out of the real build)"""
    tag = "#[cfg(mos_verif)]"
    while True:
        i = src.find(tag)
        if i < 0:
            return src
        j = i + len(tag)
        while src[j].isspace():
            j += 1
        # the guarded item ends at the first `;` or at the end of the first balanced `{..}` at depth 0
        depth = 0
        k = j
        while k < len(src):
            ch = src[k]
            if ch in "({[":
                depth += 1
            elif ch in ")}]":
                depth -= 1
                if depth == 0 and ch == "}":
                    k += 1
                    break
            elif ch == ";" and depth == 0:
                k += 1
                break
            k += 1
        src = src[:i] + src[k:]


def translate():
    cg = strip_cfg_verif(strip_comments(read("mos-core/src/codegen/mod.rs")))
    cg = re.sub(r"log::trace!\((?:[^()]|\((?:[^()]|\([^()]*\))*\))*\);", "", cg)
    # statements that only feed the source map / the language-server analysis are not part of the assembler model
    cg = re.sub(r"let \w+ = (?:s|self)\.(?:source_map|analysis)\b[^;{}]*;", "", cg)
    seg = strip_comments(read("mos-core/src/codegen/segment.rs"))
    seg = re.sub(r"log::trace!\((?:[^()]|\((?:[^()]|\([^()]*\))*\))*\);", "", seg)
    out = {}

    # ---- segment.rs
    d = norm(between(seg, r"impl Default for SegmentOptions \{", r"\n\}", "SegmentOptions::default"))
    m = need(r"Self \{ bank: None, initial_pc: 0x([0-9a-fA-F]+)\.into\(\), write: (true|false), target_address: 0x([0-9a-fA-F]+)\.into\(\), \}", d,
             "SegmentOptions::default")
    out["segment_default_initial_pc"] = int(m.group(1), 16)
    out["segment_default_write"] = m.group(2)
    out["segment_default_target_address"] = int(m.group(3), 16)
    e = norm(between(seg, r"pub fn emit\(&mut self, bytes: &\[u8\]\) -> bool \{", r"\n    \}", "Segment::emit"))
    m = need(r"^let start = self\.pc; let end = self\.pc \+ bytes\.len\(\); "
             r"if start\.as_usize\(\) > 0x([0-9a-fA-F]+) \|\| end\.as_usize\(\) > 0x([0-9a-fA-F]+) \{ return false; \} "
             r"if start\.as_usize\(\) < self\.range\.start \|\| self\.data\.is_empty\(\) \{ self\.range\.start = start\.as_usize\(\); \} "
             r"if end\.as_usize\(\) > self\.range\.end \|\| self\.data\.is_empty\(\) \{ self\.range\.end = end\.as_usize\(\); \} "
             r"if self\.data\.is_empty\(\) \{ self\.data = \[0; 65536\]\.into\(\); \} "
             r"self\.data\.splice\(\*start\.\.\*end, bytes\.to_vec\(\)\); self\.pc = end; true$", e, "Segment::emit")
    out["emit_start_limit"] = int(m.group(1), 16)
    out["emit_end_limit"] = int(m.group(2), 16)
    r = norm(between(seg, r"pub fn reset\(&mut self\) \{", r"\n    \}", "Segment::reset"))
    if r != "self.pc = self.options.initial_pc; self.range = self.pc.as_empty_range(); self.data = vec![];":
        raise ShapeError("Segment::reset changed: %s" % r)
    t = norm(between(seg, r"pub fn target_pc\(&self\) -> ProgramCounter \{", r"\n    \}", "Segment::target_pc"))
    if t != "((self.pc.as_i64() + self.target_offset()) as usize).into()":
        raise ShapeError("Segment::target_pc changed: %s" % t)
    t = norm(between(seg, r"pub fn target_offset\(&self\) -> i64 \{", r"\n    \}", "Segment::target_offset"))
    if t != "self.options.target_address.as_i64() - self.options.initial_pc.as_i64()":
        raise ShapeError("Segment::target_offset changed: %s" % t)
    rd = norm(between(seg, r"pub fn range_data\(&self\) -> &\[u8\] \{", r"\n    \}", "Segment::range_data"))
    if rd != "if self.data.is_empty() { EMPTY_DATA.get_or_init(Vec::new) } else { &self.data[self.range()] }":
        raise ShapeError("Segment::range_data changed: %s" % rd)

    # ---- CodegenOptions::default
    d = norm(between(cg, r"impl Default for CodegenOptions \{", r"\n\}", "CodegenOptions::default"))
    m = need(r"pc: ProgramCounter::new\(0x([0-9a-fA-F]+)\)", d, "CodegenOptions::default")
    out["default_pc"] = int(m.group(1), 16)

    # ---- pass loop
    body = norm(between(cg, r"pub fn codegen\(\s*ast: Arc<ParseTree>,\s*options: CodegenOptions,\s*\) -> \(Option<CodegenContext>, Diagnostics\) \{",
                        r"\n\}\n", "codegen()"))
    # C06 (add24f8): a pass cap; the model's pass_loop mirrors it (running out of passes = "did not converge")
    m = need(r"#\[cfg\(not\(test\)\)\] const MAX_ITERATIONS: usize = (\d+);", body, "MAX_ITERATIONS")
    out["max_iterations"] = int(m.group(1))
    need(r"let mut prev_undefined = HashSet::new\(\); let mut prev_errors = Diagnostics::default\(\)\.with_code_map\(&ctx\.tree\.code_map\); "
         r"let mut errors = Diagnostics::default\(\)\.with_code_map\(&ctx\.tree\.code_map\); ctx\.pass_idx = 0; "
         r"while ctx\.pass_idx != MAX_ITERATIONS \{", body, "pass loop head")
    loop_ = body[body.index("while ctx.pass_idx != MAX_ITERATIONS {"):]
    counted = "let symbol_count = ctx.symbols.node_count();" in loop_
    head = (r"while ctx\.pass_idx != MAX_ITERATIONS \{ " + (r"let symbol_count = ctx\.symbols\.node_count\(\); " if counted else "") +
            r"match ctx\.emit_tokens\(&ast\.main_file\(\)\.tokens\) \{ Ok\(\(\)\) => \(\), Err\(e\) => \{ errors = e\.with_code_map\(&ctx\.tree\.code_map\); \} \} "
            # C06: an error of after_pass (a program that defines `segments.<name>.start` itself) is reported instead of `.expect(..)`
            r"(?:ctx\.after_pass\(\)\.expect\(\"Could not finalize pass\"\); |if let Err\(e\) = ctx\.after_pass\(\) \{ errors\.extend\(e\); \} )" +
            (r"let symbols_added = ctx\.symbols\.node_count\(\) != symbol_count; " if counted else "") +
            r"if ctx\.segments\.is_empty\(\) \{ let seg_opts = SegmentOptions \{ initial_pc: options\.pc, target_address: options\.pc, \.\.Default::default\(\) \}; "
            r"ctx\.segments \.insert\(\"default\"\.into\(\), Segment::new\(seg_opts\)\); ctx\.current_segment = Some\(\"default\"\.into\(\)\); \} else \{ "
            r"if !errors\.is_empty\(\) && errors == prev_errors \{ return \(Some\(ctx\), errors\); \} "
            r"if errors\.is_empty\(\) \{ if (ctx\.undefined\.is_empty\(\) && ctx\.changed\.is_empty\(\)(?: && !symbols_added)?) \{ break; \} else \{ "
            r"if ((?:!ctx\.undefined\.is_empty\(\) && )?ctx\.undefined == prev_undefined) \{ let errors = ctx \.undefined \.iter\(\) "
            r"\.sorted_by_key\(")
    m = need(head, loop_, "pass loop body")
    out["stop_needs_no_new_symbols"] = "true" if "!symbols_added" in m.group(1) else "false"
    out["unknown_needs_nonempty"] = "true" if m.group(2).startswith("!ctx.undefined.is_empty()") else "false"
    need(r"return \(Some\(ctx\), e\); \} prev_undefined = std::mem::take\(&mut ctx\.undefined\); \} \} \} "
         r"prev_errors = errors; errors = Diagnostics::default\(\)\.with_code_map\(&ctx\.tree\.code_map\); ctx\.next_pass\(\); \} "
         # C06 (add24f8): leaving the loop through the cap returns prev_errors + "did not converge" (modelled in model/PassLoop.v)
         r"(?:if ctx\.pass_idx == MAX_ITERATIONS \{ let mut errors = prev_errors; errors\.push\(Diagnostic::error\(\)\.with_message\(format!\( "
         r"\"the program did not converge after \{\} passes\", MAX_ITERATIONS \)\)\); return \(Some\(ctx\), errors\); \} )"
         r"if let Err\(e\) = ctx\.finalize\(\) \{ errors\.extend\(e\); \} \(Some\(ctx\), errors\)$", loop_, "pass loop tail")
    np = norm(between(cg, r"fn next_pass\(&mut self\) \{", r"\n    \}", "next_pass"))
    # (`self.analysis.clear();` concerns the language-server analysis only, which the assembler model does not carry)
    # C06 (loop iteration budget): `self.loop_iterations = 0;` is bookkeeping of the `.loop` limit
    if np.replace(" self.analysis.clear();", "").replace(" self.loop_iterations = 0;", "").replace(" self.containers_entered = 0; self.nesting_exhausted = false;", "") != ("self.pass_idx += 1; self.next_macro_scope_id = 0; self.changed.clear(); self.segments.values_mut().for_each(|s| s.reset()); "
              "self.current_segment = self.segments.keys().next().cloned(); "          # acfe737: every pass starts in the first-defined segment
              "self.test_elements.clear(); self.source_map.clear();"):
        raise ShapeError("next_pass changed: %s" % np)
    ap = norm(between(cg, r"fn register_all_segment_symbols\(&mut self\) -> CoreResult<\(\)> \{", r"\n    \}", "register_all_segment_symbols"))
    need(r"let path: IdentifierPath = \"segments\"\.into\(\); .*for \(name, segment\) in &segments \{ let path = path\.join\(name\); "
         # C06: either `?` or `if let Err(e) = .. { errors.extend(e); }` (a clash with a symbol of the program is reported, the segments are kept)
         r"(?:if let Err\(e\) = )?self\.add_symbol\( path\.join\(\"start\"\), self\.symbol\(None, segment\.range\(\)\.start as i64, SymbolType::Constant\), \)(?:\?;| \{ errors\.extend\(e\); \}) "
         r"(?:if let Err\(e\) = )?self\.add_symbol\( path\.join\(\"end\"\), self\.symbol\(None, segment\.range\(\)\.end as i64, SymbolType::Constant\), \)(?:\?;| \{ errors\.extend\(e\); \}) \}", ap,
         "register_all_segment_symbols")

    # ---- add_symbol
    a = norm(between(cg, r"fn add_symbol<I: Into<IdentifierPath>>\(", r"\n    pub fn get_evaluator\(", "add_symbol"))
    need(r"if existing\.ty != symbol\.ty \|\| existing\.read_only\(\) != symbol\.read_only\(\) \|\| "
         r"\(existing\.pass_idx == symbol\.pass_idx && existing\.data != symbol\.data && existing\.read_only\(\)\) \{ "
         r"(?:let span = symbol\.span\.expect\(\"no span provided\"\); return Err\(|let mut diag = Diagnostic::error\(\) \.with_message\(format!\(\"cannot redefine symbol: \{\}\", &path\)\); "
         r"if let Some\(span\) = symbol\.span\.or\(existing\.span\) \{ diag = diag\.with_labels\(vec!\[span\.to_label\(\)\]\); \} return Err\()", a, "add_symbol: redefinition test")   # C06
    need(r"if existing\.data != symbol\.data \{ maybe_require_new_pass = true; \} \*existing = symbol; \} "
         r"None => \{ self\.symbols\.update_data\(symbol_nx, symbol\); maybe_require_new_pass = true; \}", a, "add_symbol: changed value")
    need(r"None => \{ let \(parent, id\) = path\.clone\(\)\.split\(\); let parent_nx = self\.symbols\.ensure_index\(self\.symbols\.root, &parent\); "
         r"let nx = self\.symbols\.insert\(parent_nx, id, symbol\); nx \}", a, "add_symbol: insertion")
    # changed symbols go to a set of their own (0b9c159): they force another pass but are never reported as unknown identifiers
    if re.search(r"self\.undefined\.insert", a):
        raise ShapeError("add_symbol inserts into the undefined set")
    need(r"if maybe_require_new_pass && ty != SymbolType::Variable \{ self\.changed\.insert\(UndefinedSymbol \{ "
         r"scope_nx: self\.current_scope_nx, id, span, \}\); \}", a, "add_symbol: flagging")
    need(r"let symbol_nx = self\.symbols\.try_index\(self\.current_scope_nx, &id\);", a, "add_symbol: lookup")

    # ---- label, with_scope
    lab = norm(between(cg, r"Token::Label \{ id, block, \.\. \} => \{", r"Token::Loop \{", "label arm"))
    need(r"^if let Some\(pc\) = self\.try_current_target_pc\(\) \{ self\.add_symbol\( id\.data\.clone\(\), "
         r"self\.symbol\(id\.span, pc\.as_i64\(\), SymbolType::Label\), \)\?; \} "
         r"if let Some\(b\) = block \{ self\.with_scope\(&id\.data, Some\(b\), \|s\| s\.emit_tokens\(&b\.inner\)\)\?; \} \}$", lab, "label arm")
    tp = norm(between(cg, r"fn try_current_target_pc\(&self\) -> Option<ProgramCounter> \{", r"\n    \}", "try_current_target_pc"))
    if tp != "self.try_current_segment().map(|seg| seg.target_pc())":
        raise ShapeError("try_current_target_pc changed: %s" % tp)
    ws = norm(between(cg, r"fn with_scope<F: FnOnce\(&mut Self\) -> CoreResult<\(\)>>\(", r"\n    \}", "with_scope"))
    # 5239ce9: macro invocations are numbered per scope (counter saved, reset to 0, restored) -> enter_scope / leave_scope in Asm.v
    need(r"let old_scope_nx = self\.current_scope_nx; let old_macro_scope_id = std::mem::replace\(&mut self\.next_macro_scope_id, 0\); self\.current_scope\.push\(scope\); "
         r"self\.current_scope_nx = self \.symbols \.ensure_index\(self\.symbols\.root, &self\.current_scope\); "
         r"if let Some\(span\) = add_symbols_for_block\.map\(\|b\| b\.lparen\.span\) \{ self\.try_current_target_pc\(\)\.map\(\|pc\| \{ "
         r"self\.add_symbol\(\"-\", self\.symbol\(span, pc\.as_i64\(\), SymbolType::Constant\)\) \}\); \} "
         r"let result = f\(self\); "
         r"if let Some\(span\) = add_symbols_for_block\.map\(\|b\| b\.rparen\.span\) \{ self\.try_current_target_pc\(\)\.map\(\|pc\| \{ "
         r"self\.add_symbol\(\"\+\", self\.symbol\(span, pc\.as_i64\(\), SymbolType::Constant\)\) \}\); \} "
         r"self\.current_scope_nx = old_scope_nx; self\.current_scope\.pop\(\); self\.next_macro_scope_id = old_macro_scope_id; result$", ws, "with_scope")

    # ---- loop, macro, align, data, pc
    lp = norm(between(cg, r"Token::Loop \{", r"Token::MacroDefinition \{", "loop arm"))
    # C06: optional budget check (`loop_count > MAX_LOOP_ITERATIONS - self.loop_iterations` -> error) before the iteration
    m = need(r"if let Some\(loop_count\) = self\.evaluate_expression_as_i64\(expr, true\)\? \{ "
             r"(?:if loop_count > MAX_LOOP_ITERATIONS - self\.loop_iterations \{ return Err\(Diagnostic::error\(\)[^;]*; \} "
             r"self\.loop_iterations \+= loop_count\.max\(0\); )?for index in (\d+)\.\.loop_count \{ "
             r"let iteration_scope = Identifier::new\(format!\(\"\{\}_\{\}\", loop_scope, index\)\); "
             r"self\.with_scope\(&iteration_scope, Some\(block\), \|s\| \{ s\.add_symbol\( \"index\", s\.symbol\(expr\.span, index, SymbolType::Constant\), \)\?; "
             r"s\.emit_tokens\(&block\.inner\) \}\)\?; \} \}", lp, "loop arm (one scope per iteration, `index` an ordinary constant of it)")
    out["loop_first_index"] = int(m.group(1))
    # symbols are only ever removed by the greedy analysis of code that is not assembled (41281c3, language server only)
    cg_wo = re.sub(r"fn analyse_unassembled\(&mut self, tokens: &\[Token\]\) -> CoreResult<\(\)> \{.*?\n    \}\n", "", cg, flags=re.S)
    if "remove_symbol" in cg_wo or "symbols.remove" in cg_wo:
        raise ShapeError("codegen removes symbols again (the model has no removal)")
    mi = norm(between(cg, r"Token::MacroInvocation \{ id: name, args, \.\. \} => \{", r"Token::ProgramCounterDefinition \{", "macro invocation arm"))
    # e323987: the counter advances for every invocation, before the macro is looked up
    need(r"^let macro_scope_id = self\.next_macro_scope_id; self\.next_macro_scope_id \+= 1; let def = self \.get_evaluator\(\)", mi,
         "macro invocation arm (scope number taken before the lookup)")
    if mi.count("next_macro_scope_id") != 2:
        raise ShapeError("macro invocation arm: the scope counter is touched more than once")
    need(r"let macro_scope = Identifier::new\(format!\(\"\$macro_\{\}\", macro_scope_id\)\); "
         r"let mut values = vec!\[\]; for \(expr, _\) in args\.iter\(\) \{ values\.push\( self\.evaluate_expression\(expr, true\)\? "
         r"\.unwrap_or\(SymbolData::Placeholder\), \); \} "
         r"self\.with_scope\(&macro_scope, None, \|s\| \{ for \(arg_name, value\) in def\.args\.iter\(\)\.zip\(values\) \{ "
         r"s\.add_symbol\( &arg_name\.data, s\.symbol\(arg_name\.span, value, SymbolType::MacroArgument\), \)\?; \} "
         r"s\.emit_tokens\(&def\.block\)\?;", mi, "macro invocation arm (arguments evaluated in the invocation's scope)")
    al = norm(between(cg, r"Token::Align \{ value, \.\. \} => \{", r"Token::Assert \{", "align arm"))
    m = need(r"^if let Some\(pc\) = self\.try_current_target_pc\(\) \{ if let Some\(align\) = self\.evaluate_expression_as_i64\(value, true\)\? \{ "
             r"if align <= 0 \{ return Err\(Diagnostic::error\(\) \.with_message\(format!\( \"cannot align to \{\}: the alignment must be greater than zero\", align \)\) "
             r"\.with_labels\(vec!\[value\.span\.to_label\(\)\]\) \.into\(\)\); \} "
             r"let padding = \(align - pc\.as_i64\(\)\.rem_euclid\(align\)\)\.min\(0x([0-9a-fA-F]+)\) as usize; let mut bytes = Vec::new\(\); bytes\.resize\(padding, 0u8\); "
             r"self\.emit\(value\.span, &bytes\)\?; \} \} \}$", al, "align arm")
    out["align_padding_cap"] = int(m.group(1), 16)
    da = norm(between(cg, r"Token::Data \{ values, size \} => \{", r"Token::Definition \{", "data arm"))
    need(r"DataSize::Byte => vec!\[value as u8\], DataSize::Word => \(value as u16\)\.to_le_bytes\(\)\.to_vec\(\), "
         r"DataSize::Dword => \(value as u32\)\.to_le_bytes\(\)\.to_vec\(\),", da, "data arm")
    pcd = norm(between(cg, r"Token::ProgramCounterDefinition \{ value, \.\. \} => \{", r"Token::Segment \{", "pc arm"))
    # C06 (program counter range fix): optional range check of the value and of the relocated address before set_pc
    need(r"^if let Some\(pc\) = self\.evaluate_expression_as_i64\(value, true\)\? \{ "
         r"(?:if !\(0\.\.=0x10000\)\.contains\(&pc\) \{ return Err\(Diagnostic::error\(\)[^;]*; \} )?"
         r"if let Some\(seg\) = self\.try_current_segment_mut\(\) \{ "
         r"(?:if pc \+ seg\.target_offset\(\) < 0 \{ return Err\(Diagnostic::error\(\)[^;]*; \} )?"
         r"seg\.set_pc\(pc\); \} \} \}$", pcd, "pc arm")
    iff = norm(between(cg, r"Token::If \{\s*value, if_, else_, \.\.\s*\} => \{", r"Token::Import \{", "if arm"))
    need(r"^if let Some\(value\) = self\.evaluate_expression_as_i64\(value, true\)\? \{ let emit_if = value != 0; "
         r"if emit_if \{ self\.emit_tokens\(&if_\.inner\)\?; \} else if self\.options\.enable_greedy_analysis \{ "
         r"(?:self\.with_dummy_segment\(\|s\| s\.emit_tokens\(&if_\.inner\)\)|self\.analyse_unassembled\(&if_\.inner\))\?; \} "
         r"if let Some\(e\) = else_ \{ if !emit_if \{ self\.emit_tokens\(&e\.inner\)\?; \}", iff, "if arm")

    # ---- `.segment "x" { .. }`: the previous segment is selected again whether or not the block reported an error
    sg = norm(between(cg, r"Token::Segment \{ id, block, \.\. \} => \{", r"Token::Test \{", "segment arm"))
    need(r"match block \{ Some\(block\) => \{ let old_segment = std::mem::replace\(&mut self\.current_segment, Some\(segment_id\)\); "
         r"let result = self\.emit_tokens\(&block\.inner\); self\.current_segment = old_segment; result\?; \} "
         r"None => \{ self\.current_segment = Some\(segment_id\); \} \}", sg, "segment arm")

    # ---- instruction arm: what a branch that is too far leaves behind before the error
    ins = norm(between(cg, r"Token::Instruction\(i\) => \{", r"Token::Label \{", "instruction arm"))
    m = re.search(r"\} else \{ (?:self\.emit\(full_span, &\[([0-9, ]*)\]\)\?; )?return Err\(Diagnostic::error\(\) \.with_message\(format!\( \"branch too far", ins)
    if not m:
        raise ShapeError("instruction arm: 'branch too far' exit has unrecognised shape")
    too_far = [int(x) for x in (m.group(1) or "").replace(" ", "").split(",") if x]
    need(r"match get_opcode_bytes\(i\.mnemonic\.data, am, suffix, value\) \{ Ok\(bytes\) => self\.emit\(full_span, &bytes\)\?, "
         r"Err\(\(\)\) => \{ self\.emit\(full_span, &\[0\]\)\?; return Err\(", ins, "instruction arm: emission")
    need(r"\} else \{ self\.emit\(full_span, &\[\]\)\?; \} \}$", ins, "instruction arm: unresolved operand emits nothing")

    # ---- limits the model does not follow beyond (C06): a loop count above the per-pass budget, nesting deeper than the limit
    m = re.search(r"const MAX_LOOP_ITERATIONS: i64 = (0x[0-9a-fA-F]+|\d+);", cg)
    out["loop_iteration_limit"] = int(m.group(1), 0) if m else 2 ** 62
    m = re.search(r"const MAX_NESTING_DEPTH: usize = (\d+);", cg)
    out["nesting_depth_limit"] = int(m.group(1)) if m else 2 ** 30

    lines = ["(* GENERATED by translate/t_codegen.py from mos-core/src/codegen/{mod,segment}.rs. DO NOT EDIT. *)",
             "From Coq Require Import List NArith ZArith.", "Import ListNotations.", "Open Scope Z_scope.",
             "Definition too_far_emits : list N := [%s]%%N." % "; ".join(str(x) for x in too_far)]
    for k in ["segment_default_initial_pc", "segment_default_target_address", "emit_start_limit", "emit_end_limit", "default_pc",
              "loop_first_index", "align_padding_cap", "max_iterations", "loop_iteration_limit", "nesting_depth_limit"]:
        lines.append("Definition %s : Z := %d." % (k, out[k]))
    for k in ["segment_default_write", "stop_needs_no_new_symbols", "unknown_needs_nonempty"]:
        lines.append("Definition %s : bool := %s." % (k, out[k]))
    fp = write_if_changed("CodegenConsts.v", "\n".join(lines) + "\n")
    out.update({"file": "Gen/CodegenConsts.v", "fingerprint": fp})
    return out


if __name__ == "__main__":
    print(translate())

// c06probe: runs every stage of mos-core (parse, codegen in normal and greedy mode, format, listing) on one project
// per request and reports, per stage, a value / diagnostics / the panic message.  The pass loop is observed through
// hook H1: every pass digest is recorded; a repeated digest (= the loop state recurs, so the loop never exits) or more
// than `max_passes` passes stop the loop.  Stack overflows and allocation failures abort the process: the parent
// observes the signal.
use mos_core::codegen::verif::{verif_set_pass_observer, VerifPassAction, VerifPassInfo, STOPPED_MESSAGE};
use mos_core::codegen::{codegen, CodegenOptions};
use mos_core::errors::Diagnostics;
use mos_core::formatting::{format, FormattingOptions};
use mos_core::io::{to_listing, BinaryWriter};
use mos_core::parser::code_map::CodeMap;
use mos_core::parser::source::{FileSystemParsingSource, InMemoryParsingSource, ParsingSource};
use mos_core::parser::parse;
use serde_json::{json, Map, Value};
use std::cell::RefCell;
use std::io::{BufRead, Write};
use std::panic::{catch_unwind, AssertUnwindSafe};
use std::path::Path;
use std::rc::Rc;
use std::sync::{Arc, Mutex};

thread_local! {
    static LAST_PANIC_LOC: RefCell<Option<String>> = RefCell::new(None);
}

fn panic_msg(p: &Box<dyn std::any::Any + Send>) -> Value {
    let msg = if let Some(s) = p.downcast_ref::<&str>() {
        s.to_string()
    } else if let Some(s) = p.downcast_ref::<String>() {
        s.clone()
    } else {
        "<non-string panic>".to_string()
    };
    let loc = LAST_PANIC_LOC.with(|l| l.borrow_mut().take());
    json!({"msg": msg, "loc": loc})
}

/// every diagnostic with the span made relative to its file; `in_file` is the C06 oracle on locations
fn diag_json(d: &Diagnostics, cm: Option<&CodeMap>) -> Value {
    let mut out = vec![];
    for diag in d.iter() {
        let mut o = Map::new();
        o.insert("msg".into(), json!(diag.message));
        let mut labels = vec![];
        for label in &diag.labels {
            let span = label.file_id;
            let mut l = Map::new();
            l.insert("raw_lo".into(), json!(span.low().as_usize()));
            l.insert("raw_hi".into(), json!(span.high().as_usize()));
            match cm {
                None => {
                    l.insert("no_code_map".into(), json!(true));
                }
                Some(cm) => {
                    let r = catch_unwind(AssertUnwindSafe(|| {
                        // the file is found from the low end only; the high end is checked here
                        let file = cm.find_file(span.low()).clone();
                        let flo = file.span.low().as_usize();
                        let fhi = file.span.high().as_usize();
                        let in_file = span.low().as_usize() >= flo
                            && span.high().as_usize() <= fhi
                            && span.low().as_usize() <= span.high().as_usize();
                        let boundary = in_file
                            && file.source().is_char_boundary(span.low().as_usize() - flo)
                            && file.source().is_char_boundary(span.high().as_usize() - flo);
                        let looked_up = catch_unwind(AssertUnwindSafe(|| {
                            let sl = cm.look_up_span(span);
                            (sl.begin.line, sl.begin.column, sl.end.line, sl.end.column)
                        }));
                        (file.name().to_string(), flo, fhi, in_file, boundary, looked_up.ok())
                    }));
                    LAST_PANIC_LOC.with(|l| l.borrow_mut().take());
                    match r {
                        Ok((name, flo, fhi, in_file, boundary, lc)) => {
                            l.insert("file".into(), json!(name));
                            l.insert("lo".into(), json!(span.low().as_usize() as i64 - flo as i64));
                            l.insert("hi".into(), json!(span.high().as_usize() as i64 - flo as i64));
                            l.insert("flen".into(), json!(fhi - flo));
                            l.insert("in_file".into(), json!(in_file));
                            l.insert("char_boundary".into(), json!(boundary));
                            l.insert("line_col".into(), json!(lc));
                        }
                        Err(_) => {
                            l.insert("in_file".into(), json!(false));
                            l.insert("no_file".into(), json!(true));
                        }
                    }
                }
            }
            labels.push(Value::Object(l));
        }
        o.insert("labels".into(), Value::Array(labels));
        out.push(Value::Object(o));
    }
    Value::Array(out)
}

fn source_from(req: &Value) -> (Arc<Mutex<dyn ParsingSource>>, String) {
    // "dir": the files were written to that directory by the caller; they are read through the file system source that
    // `mos build` uses (relative import paths with `./` and `../`, subdirectories)
    if let Some(dir) = req.get("dir").and_then(|d| d.as_str()) {
        let entry = req.get("entry").and_then(|e| e.as_str()).unwrap_or("main.asm");
        let path = Path::new(dir).join(entry);
        return (FileSystemParsingSource::new().into(), path.to_string_lossy().to_string());
    }
    let mut src = InMemoryParsingSource::new();
    if let Some(files) = req.get("files").and_then(|f| f.as_object()) {
        for (k, v) in files {
            src = src.add(k.as_str(), v.as_str().unwrap_or(""));
        }
    }
    let entry = req.get("entry").and_then(|e| e.as_str()).unwrap_or("main.asm").to_string();
    (src.into(), entry)
}

fn hex(b: &[u8]) -> String {
    let mut s = String::with_capacity(b.len() * 2);
    for x in b.iter().take(64) {
        s.push_str(&format!("{:02x}", x));
    }
    s
}

struct PassLog {
    passes: Vec<Value>,
    digests: Vec<u64>,
    stop: Option<Value>,
    repeat: Option<Value>,
}

fn run_codegen(req: &Value, tree: &Arc<mos_core::parser::ParseTree>, greedy: bool, out: &mut Map<String, Value>) {
    let max_passes = req.get("max_passes").and_then(|n| n.as_u64()).unwrap_or(64) as usize;
    // a repeated digest proves that the unobserved loop would never leave through its rules; with
    // `stop_on_repeat: false` the loop is left running (to see whether the implementation's own cap ends it)
    let stop_on_repeat = req.get("stop_on_repeat").and_then(|b| b.as_bool()).unwrap_or(true);
    let mut opts = CodegenOptions::default();
    opts.enable_greedy_analysis = greedy;
    if let Some(pc) = req.get("pc").and_then(|b| b.as_u64()) {
        opts.pc = (pc as usize).into();
    }
    let log = Rc::new(RefCell::new(PassLog { passes: vec![], digests: vec![], stop: None, repeat: None }));
    let log2 = log.clone();
    verif_set_pass_observer(Some(Box::new(move |info: &VerifPassInfo| {
        let mut l = log2.borrow_mut();
        l.passes.push(json!({"i": info.pass_idx, "d": format!("{:016x}", info.digest), "e": format!("{:016x}", info.errors_digest),
            "u": format!("{:016x}", info.undefined_digest), "s": format!("{:016x}", info.symbols_digest),
            "g": format!("{:016x}", info.segments_digest), "ne": info.errors, "nu": info.undefined, "nodes": info.node_count,
            "nseg": info.segment_count, "added": info.symbols_added, "changed": info.changed}));
        if let Some(j) = l.digests.iter().position(|d| *d == info.digest) {
            if l.repeat.is_none() {
                l.repeat = Some(json!({"first": j, "again": info.pass_idx}));
            }
            if stop_on_repeat {
                l.stop = Some(json!({"kind": "repeat", "first": j, "again": info.pass_idx}));
                return VerifPassAction::Stop;
            }
        }
        l.digests.push(info.digest);
        if l.digests.len() > max_passes {
            l.stop = Some(json!({"kind": "cap", "passes": l.digests.len()}));
            return VerifPassAction::Stop;
        }
        VerifPassAction::Continue
    })));
    let r = catch_unwind(AssertUnwindSafe(|| codegen(tree.clone(), opts)));
    verif_set_pass_observer(None);
    let mut o = Map::new();
    {
        let l = log.borrow();
        o.insert("passes".into(), Value::Array(l.passes.clone()));
        o.insert("stop".into(), l.stop.clone().unwrap_or(Value::Null));
        o.insert("repeat".into(), l.repeat.clone().unwrap_or(Value::Null));
    }
    match r {
        Err(p) => {
            o.insert("panic".into(), panic_msg(&p));
        }
        Ok((ctx, errs)) => {
            let stopped = errs.iter().any(|d| d.message == STOPPED_MESSAGE);
            let real: Vec<_> = errs.iter().filter(|d| d.message != STOPPED_MESSAGE).cloned().collect();
            let real = Diagnostics::from(real);
            o.insert("stopped".into(), json!(stopped));
            o.insert("errors".into(), diag_json(&real, Some(&tree.code_map)));
            o.insert("ok".into(), json!(real.is_empty() && !stopped));
            if let Some(mut ctx) = ctx {
                let mut segs = vec![];
                for (name, seg) in ctx.segments() {
                    segs.push(json!({"name": name.to_string(), "start": seg.range().start, "end": seg.range().end,
                                     "pc": seg.pc().as_usize(), "len": seg.range_data().len(), "head": hex(seg.range_data())}));
                }
                o.insert("segments".into(), Value::Array(segs));
                if !stopped {
                    // bank merge (what `mos build` does next) and listing
                    if real.is_empty() {
                        match catch_unwind(AssertUnwindSafe(|| BinaryWriter.merge_segments(&ctx))) {
                            Ok(Ok(banks)) => {
                                let v: Vec<Value> = banks.iter().map(|b| json!({"name": b.options().name.to_string(), "len": b.data().len()})).collect();
                                o.insert("banks".into(), Value::Array(v));
                            }
                            Ok(Err(e)) => {
                                o.insert("merge_errors".into(), diag_json(&e, Some(&tree.code_map)));
                            }
                            Err(p) => {
                                o.insert("merge_panic".into(), panic_msg(&p));
                            }
                        }
                    }
                    let nb = req.get("listing_bytes").and_then(|n| n.as_u64()).unwrap_or(8) as usize;
                    // `mos build` writes listings only after a successful assembly
                    if real.is_empty() {
                    match catch_unwind(AssertUnwindSafe(|| to_listing(&ctx, nb))) {
                        Ok(Ok(l)) => {
                            let total: usize = l.values().map(|s| s.len()).sum();
                            o.insert("listing".into(), json!({"files": l.len(), "bytes": total}));
                        }
                        Ok(Err(e)) => {
                            o.insert("listing_errors".into(), diag_json(&e, Some(&tree.code_map)));
                        }
                        Err(p) => {
                            o.insert("listing_panic".into(), panic_msg(&p));
                        }
                    }
                    }
                    if real.is_empty() && req.get("extra_pass").and_then(|b| b.as_bool()).unwrap_or(false) {
                        match catch_unwind(AssertUnwindSafe(|| ctx.verif_extra_pass())) {
                            Ok(x) => {
                                o.insert("extra_pass".into(), json!({"changed_symbols": x.changed_symbols, "changed_segments": x.changed_segments,
                                    "errors": x.errors, "undefined": x.undefined}));
                            }
                            Err(p) => {
                                o.insert("extra_pass_panic".into(), panic_msg(&p));
                            }
                        }
                    }
                }
            }
        }
    }
    out.insert(if greedy { "greedy".into() } else { "codegen".into() }, Value::Object(o));
}

fn cmd_run(req: &Value) -> Value {
    let mut out = Map::new();
    let stages: Vec<String> = req
        .get("stages")
        .and_then(|s| s.as_array())
        .map(|a| a.iter().filter_map(|x| x.as_str().map(|s| s.to_string())).collect())
        .unwrap_or_else(|| vec!["codegen".into(), "greedy".into(), "format".into()]);
    let (src, entry) = source_from(req);
    let parsed = catch_unwind(AssertUnwindSafe(|| parse(Path::new(&entry), src)));
    let (tree, perr) = match parsed {
        Err(p) => {
            out.insert("parse".into(), json!({"panic": panic_msg(&p)}));
            return Value::Object(out);
        }
        Ok(x) => x,
    };
    let cm = tree.as_ref().map(|t| t.code_map.clone());
    let mut po = Map::new();
    po.insert("errors".into(), diag_json(&perr, cm.as_ref()));
    po.insert("tree".into(), json!(tree.is_some()));
    if let Some(t) = &tree {
        let mut names: Vec<String> = t.files.keys().map(|p| p.to_string_lossy().to_string()).collect();
        names.sort();
        po.insert("files".into(), json!(names));
    }
    out.insert("parse".into(), Value::Object(po));
    let tree = match tree {
        Some(t) => t,
        None => return Value::Object(out),
    };
    // `mos build` and the language server both stop at parse diagnostics unless asked otherwise
    let force = req.get("force_codegen").and_then(|b| b.as_bool()).unwrap_or(false);
    if perr.is_empty() || force {
        if stages.iter().any(|s| s == "codegen") {
            run_codegen(req, &tree, false, &mut out);
        }
        if stages.iter().any(|s| s == "greedy") {
            run_codegen(req, &tree, true, &mut out);
        }
    }
    if perr.is_empty() && stages.iter().any(|s| s == "format") {
        let mut m = Map::new();
        let mut names: Vec<String> = tree.files.keys().map(|p| p.to_string_lossy().to_string()).collect();
        names.sort();
        let mut opts = FormattingOptions::default();
        if let Some(v) = req.get("label_margin").and_then(|v| v.as_u64()) {
            opts.whitespace.label_margin = v as usize;
        }
        if let Some(v) = req.get("code_margin").and_then(|v| v.as_u64()) {
            opts.whitespace.code_margin = v as usize;
        }
        for n in names {
            match catch_unwind(AssertUnwindSafe(|| format(n.as_str(), tree.clone(), opts))) {
                Ok(s) => {
                    m.insert(n, json!({"len": s.len()}));
                }
                Err(p) => {
                    m.insert(n, json!({"panic": panic_msg(&p)}));
                }
            }
        }
        out.insert("format".into(), Value::Object(m));
    }
    Value::Object(out)
}

fn main() {
    std::panic::set_hook(Box::new(|info| {
        let loc = info.location().map(|l| format!("{}:{}", l.file(), l.line()));
        LAST_PANIC_LOC.with(|l| *l.borrow_mut() = loc);
    }));
    let stdin = std::io::stdin();
    let stdout = std::io::stdout();
    for line in stdin.lock().lines() {
        let line = match line {
            Ok(l) => l,
            Err(_) => break,
        };
        if line.trim().is_empty() {
            continue;
        }
        let req: Value = match serde_json::from_str(&line) {
            Ok(v) => v,
            Err(e) => {
                let mut o = stdout.lock();
                writeln!(o, "{}", json!({"bad_request": e.to_string()})).unwrap();
                o.flush().unwrap();
                continue;
            }
        };
        let r = catch_unwind(AssertUnwindSafe(|| cmd_run(&req)));
        verif_set_pass_observer(None);
        let reply = match r {
            Ok(v) => v,
            Err(p) => json!({"panic": panic_msg(&p)}),
        };
        let mut o = stdout.lock();
        writeln!(o, "{}", reply).unwrap();
        o.flush().unwrap();
    }
}

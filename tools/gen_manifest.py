#!/usr/bin/env python3
"""Regenerates MANIFEST.json from the table below (claimed properties) and properties.jsonl."""
import json, os, subprocess
ROOT = os.path.dirname(os.path.dirname(os.path.abspath(__file__)))
CLAIMED = {}
FRAG = os.path.join(ROOT, "manifest.d")
for fn in sorted(os.listdir(FRAG)):
    if fn.endswith(".json"):
        # one fragment per claimed property: {"text", "ref", "note", "technique", optional "category", optional "not_applicable_reason"}
        CLAIMED[fn[:-5]] = json.load(open(os.path.join(FRAG, fn), encoding="utf-8"))
UNCLAIMED_REASONS = {}
ur = os.path.join(ROOT, "manifest.d", "unclaimed.txt")
if os.path.exists(ur):
    for l in open(ur, encoding="utf-8"):
        if l.strip() and not l.startswith("#"):
            k, _, v = l.strip().partition(" ")
            UNCLAIMED_REASONS[k] = v
def main():
    props = [json.loads(l) for l in open(os.path.join(ROOT, "properties.jsonl"))]
    hooks_commits = []
    hc = os.path.join(ROOT, "hooks_commits.txt")
    if os.path.exists(hc):
        hooks_commits = [l.split()[0] for l in open(hc) if l.strip() and not l.startswith("#") and " fix: " not in l]
    # the authoritative list: commits of /repo whose subject starts with "verif hook"
    try:
        out = subprocess.run(["git", "-C", "/repo", "log", "--format=%h %s"], capture_output=True, text=True).stdout
        for l in out.splitlines():
            h, _, subj = l.partition(" ")
            if subj.startswith("verif hook") and h not in hooks_commits:
                hooks_commits.append(h)
    except Exception:
        pass
    man = {
     "version": 1,
     "setup_cmd": "./setup.sh",
     "hooks": {"guard": "mos_verif", "enable": "RUSTFLAGS=\"--cfg mos_verif\" cargo build --offline -p mos   (done by ./check into .cache/target-mos-hooks)",
               "baseline_off_cmd": "cd /repo && cargo test --workspace --no-fail-fast --offline", "source_commits": hooks_commits, "add_only": True},
     "engines": [{"name": "rocq-model+correspondence", "path": "check", "serves_properties": sorted(CLAIMED),
                  "kind_free_text": "Coq 8.16.1 theorems over an executable Gallina model (tables regenerated from /repo by translators), model extracted to OCaml and run against the implementation (mosprobe / mos binary / LSP / DAP drivers) on generated inputs; spec-level oracle evaluated on implementation outputs"}],
     "checks": [], "not_applicable": [],
     "notes": "See DESIGN.md. A property appears under not_applicable only while its model and check are still under construction; the technique applies to all twenty.",
    }
    for p in props:
        pid = p["id"]
        if pid in CLAIMED:
            c = CLAIMED[pid]
            man["checks"].append({"property_id": pid, "quick_cmd": "./check %s --tier quick" % pid, "thorough_cmd": "./check %s --tier thorough" % pid,
              "evidence_file": "evidence/%s.json" % pid, "replay_cmd_template": "./check %s --replay {path}" % pid, "engine": "rocq-model+correspondence",
              "level_claimed": {"category": c.get("category", "proof"), "text": c["text"], "design_ref": c["ref"]}, "level_note": c["note"], "technique": c["technique"]})
        else:
            man["not_applicable"].append({"property_id": pid, "reason": UNCLAIMED_REASONS.get(pid, "not claimed yet: model and check under construction (DESIGN.md §9 staging); the technique applies")})
    json.dump(man, open(os.path.join(ROOT, "MANIFEST.json"), "w"), indent=1)
if __name__ == "__main__":
    main()

#!/usr/bin/env python3
"""Regenerates MANIFEST.json from the table below (claimed properties) and properties.jsonl."""
import json, os, subprocess
ROOT = os.path.dirname(os.path.dirname(os.path.abspath(__file__)))
CLAIMED = {
 "C01": dict(
  text="Machine-checked proof (Coq) that the opcode table translated from opcodes.rs equals the ISA matrix derived from the aaabbbcc structure, and that size selection, little-endian operands, immediate/undefined rejection and relative-branch encoding follow the ISA for ALL operand values in range; tied to the code by regenerating table and constants from the Rust source on every run and by an exhaustive form x value-class x branch-distance x neighbour-pair correspondence/oracle run against the real assembler.",
  ref="DESIGN.md §7 C01",
  note="Trusted: Coq kernel, translator translate/t_opcodes.py, hand model of the Token::Instruction arm and operand-form mapping (validated by correspondence), extraction (ExtrOcamlBasic only), mosprobe. Neighbour independence is decided on the implementation by the exhaustive pair sweep. Known finding: branch to address 0 (F-C01b).",
  technique="Rocq proof over translated opcode table + extracted-model correspondence"),
 "C03": dict(
  text="Machine-checked proof (Coq) that the evaluator model -- running the operator table, flag order, modifier masks and literal conversion TRANSLATED from evaluator.rs/ast.rs on every run -- computes ordinary integer arithmetic for every expression tree of the numeric language inside the property's domain (structural induction, unbounded depth and values), that literals are sum digit*radix^i, `!-x` is NOT(NEG x), and that .byte/.word/.dword emit the low bytes little-endian. Precedence/associativity is tied by running the character-level Coq model of the expression grammar (operator tables translated from parser/mod.rs) and the real parser on generated texts (trees compared), and the bytes of `.dword <expr>` are compared with the extracted spec.",
  ref="DESIGN.md §7 C03",
  note="Trusted: Coq kernel, translators t_evaluator.py/t_grammar.py, hand model of the evaluator and of the expression grammar (validated by correspondence), extraction, mosprobe. The parser/printer round trip is not yet a theorem (decided by correspondence of the two parsers); petscii/petscreen encodings are not modelled yet.",
  technique="Rocq proof (structural induction over expression trees) + translated operator tables + extracted-model correspondence"),
 "C09": dict(
  text="Machine-checked proof (Coq) over a model of Bank::merge / merge_segments / write_banks / prg_header: for ALL segment lists the bank image is pointwise the last-defined covering segment else fill, spans min..max, sized banks are padded exactly or rejected, errors are exactly the listed conditions, files are the per-filename concatenation, prg header is the little-endian start. Tied to the code by running the extracted model and the extracted pointwise spec against `mos build` (every file byte for byte) and merge_segments (mosprobe) on generated bank/segment configurations.",
  ref="DESIGN.md §7 C09",
  note="Trusted: Coq kernel, hand model of binary_writer.rs/build.rs/finalize (validated by correspondence on every run), extraction, the harness' injective renaming of bank/file names to numbers. Empty writable segments are outside the property's domain.",
  technique="Rocq proof (pointwise refinement of bank images) + extracted-model correspondence against mos build"),
}
def main():
    props = [json.loads(l) for l in open(os.path.join(ROOT, "properties.jsonl"))]
    hooks_commits = []
    hc = os.path.join(ROOT, "hooks_commits.txt")
    if os.path.exists(hc):
        hooks_commits = [l.split()[0] for l in open(hc) if l.strip() and not l.startswith("#")]
    man = {
     "version": 1,
     "setup_cmd": "./setup.sh",
     "hooks": {"guard": "mos_verif", "enable": "RUSTFLAGS=\"--cfg mos_verif\" cargo build --offline -p mos   (done by ./check into .cache/target-mos-hooks)",
               "baseline_off_cmd": "cd /repo && cargo test --workspace --no-fail-fast --offline", "source_commits": hooks_commits, "add_only": True},
     "engines": [{"name": "rocq-model+correspondence", "path": "check", "serves_properties": sorted(CLAIMED),
                  "kind_free_text": "Coq 8.16.1 theorems over an executable Gallina model (tables regenerated from /repo by translators), model extracted to OCaml and run against the implementation (mosprobe / mos binary / LSP / DAP drivers) on generated inputs; spec-level oracle evaluated on implementation outputs"}],
     "checks": [], "not_applicable": [],
     "notes": "See DESIGN.md. A property appears under not_applicable only while its model and check are still under construction; the technique applies to all twenty.",
    }
    for p in props:
        pid = p["id"]
        if pid in CLAIMED:
            c = CLAIMED[pid]
            man["checks"].append({"property_id": pid, "quick_cmd": "./check %s --tier quick" % pid, "thorough_cmd": "./check %s --tier thorough" % pid,
              "evidence_file": "evidence/%s.json" % pid, "replay_cmd_template": "./check %s --replay {path}" % pid, "engine": "rocq-model+correspondence",
              "level_claimed": {"category": "proof", "text": c["text"], "design_ref": c["ref"]}, "level_note": c["note"], "technique": c["technique"]})
        else:
            man["not_applicable"].append({"property_id": pid, "reason": "not claimed yet: model and check under construction (DESIGN.md §9 staging); the technique applies"})
    json.dump(man, open(os.path.join(ROOT, "MANIFEST.json"), "w"), indent=1)
if __name__ == "__main__":
    main()

#!/bin/bash
# usage: tools/check_all.sh [seed] [tier]  -- every claimed check once on /repo as it is; validates each evidence file against the schema
SEED=${1:-0}; TIER=${2:-quick}; cd /verif
for P in $(python3 -c "import json;print(' '.join(c['property_id'] for c in json.load(open('MANIFEST.json'))['checks']))" | tail -1); do
  s=$(date +%s); VERIF_SEED=$SEED ./check $P --tier $TIER > /tmp/checkall_$P.out 2>/tmp/checkall_$P.err; rc=$?
  ok=$(python3-vt -c "import json,jsonschema;jsonschema.validate(json.load(open('evidence/$P.json')),json.load(open('/root/.vp/EVIDENCE.schema.json')));print('evidence-ok')" 2>&1 | tail -1)
  echo "$P seed=$SEED rc=$rc $(($(date +%s)-s))s $ok $(grep -cE '^VIOLATION' /tmp/checkall_$P.out) violation(s) $(grep -cE '^KNOWN-FINDING' /tmp/checkall_$P.out) known"
done

#!/bin/bash
# usage: tools/baseline.sh  -- runs the unedited test suite on a scratch worktree of /repo HEAD with the hook guard OFF; prints totals
W=/tmp/baseline_$$; export CARGO_NET_OFFLINE=true RUST_BACKTRACE=0
git -C /repo worktree add -q --detach "$W" HEAD || exit 9
trap 'git -C /repo worktree remove --force "$W" >/dev/null 2>&1; rm -rf "$W"; git -C /repo worktree prune' EXIT
cd "$W"; export CARGO_TARGET_DIR="$W/target"
cargo test --workspace --no-fail-fast --offline 2>&1 | tee /tmp/baseline_last.log | grep -E "^test result|FAILED|failed" | head -20
echo "HEAD $(git rev-parse --short HEAD): $(grep -E '^test result' /tmp/baseline_last.log | awk '{p+=$4; f+=$6} END {print p" passed "f" failed"}')"

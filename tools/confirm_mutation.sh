#!/bin/bash
# usage: confirm_mutation.sh <dir with patch.diff demo.sh> -- confirms in a scratch worktree of /repo:
#  compiles + test suite passes with the patch; demo fails with it and passes without it.
set -u
D=$(realpath "$1"); W=/tmp/confirm_$$_$(basename "$D")
export CARGO_NET_OFFLINE=true RUST_BACKTRACE=0
git -C /repo worktree add -q --detach "$W" HEAD || exit 9
trap 'git -C /repo worktree remove --force "$W" >/dev/null 2>&1; rm -rf "$W"' EXIT
cd "$W"
export CARGO_TARGET_DIR="$W/target"
bash "$D/demo.sh" "$W" >/tmp/confirm_$$.log 2>&1; clean_rc=$?
git apply "$D/patch.diff" || { echo "patch does not apply"; exit 8; }
cargo test --workspace --no-fail-fast --offline > /tmp/confirm_tests_$$.log 2>&1; grep -E "^test .*FAILED" /tmp/confirm_tests_$$.log | head -5 >&2; tests=$(grep -E "^test result" /tmp/confirm_tests_$$.log | awk '{p+=$4; f+=$6} END {print p" passed "f" failed"}')
if grep -qE "^test .*vice::tests::stop_resume .*FAILED" /tmp/confirm_tests_$$.log && [ "$(grep -cE '^test .*FAILED' /tmp/confirm_tests_$$.log)" = "1" ]; then echo "known flaky test failed alone: re-running the suite once" >&2; cargo test --workspace --no-fail-fast --offline > /tmp/confirm_tests_$$.log 2>&1; tests=$(grep -E "^test result" /tmp/confirm_tests_$$.log | awk '{p+=$4; f+=$6} END {print p" passed "f" failed"}'); fi
bash "$D/demo.sh" "$W" >>/tmp/confirm_$$.log 2>&1; mut_rc=$?
echo "{\"dir\": \"$D\", \"tests_with_change\": \"$tests\", \"demo_rc_clean\": $clean_rc, \"demo_rc_mutated\": $mut_rc}"

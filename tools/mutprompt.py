#!/usr/bin/env python3
"""prints the prompt for an independent mutation sub-agent: property text only, nothing from /verif"""
import json, sys
pid = sys.argv[1]; n = sys.argv[2] if len(sys.argv) > 2 else "2"
p = [json.loads(l) for l in open('/verif/properties.jsonl') if json.loads(l)['id'] == pid][0]
print(f"""You are testing how well a semantic property of the Rust project datatrash/mos (a MOS 6502 assembler / parser / formatter / language server / debug adapter; git repository at /repo) is protected. Work ONLY in your own scratch git worktree and scratch directory; do NOT read, list or use anything under /verif, and never modify /repo itself.

Setup: `git -C /repo worktree add --detach /tmp/mutwt-{pid} HEAD` ; work in /tmp/mutwt-{pid}; build and test there with `export CARGO_NET_OFFLINE=true CARGO_TARGET_DIR=/tmp/mutwt-{pid}/target` (no network; `cargo build --offline -p mos`, `cargo test --workspace --no-fail-fast --offline` = the existing 209-test suite, takes ~1-2 min after the first build). Every shell prints a harmless `WARNING conda...` line first.

The property ({pid}: {p['title']}):
\"\"\"{p['statement']}\"\"\"
It is meant to hold over: {p['quantifier']['text']}
Code it is anchored in: {', '.join(p['anchors']['files'])}

Task: produce {n} DIFFERENT changes to the source of datatrash/mos (each a separate patch against the worktree's HEAD) such that each change
 (a) still compiles and the complete existing test suite still passes (run it — all tests must pass, none edited or removed),
 (b) breaks the property above (a real semantic break of the stated property, not of something else), and
 (c) needs something SPECIFIC to manifest — a particular interleaving, a fault at a particular point, a multi-step sequence of operations, an unusual input shape, a boundary value, or two cooperating sites that each look fine alone — NOT something ordinary use or a trivial smoke test would expose at once. Make it look like a plausible regression a maintainer could introduce (refactoring slip, off-by-one, wrong variable, dropped case, reordered statements, an "optimisation"), not sabotage; do not add dead code or comments announcing it. The changes should differ from each other in mechanism and in the code site they touch.
For each change k (1..{n}) write into /tmp/mut/{pid}/k/ :
  - patch.diff   (`git diff` output against HEAD, applies with `git apply` in a clean checkout)
  - a demonstration: demo.sh (usage: `demo.sh <path-to-a-checkout-of-the-repo>`; it builds what it needs from THAT checkout with cargo --offline into <checkout>/target, runs a small program / project / client script that you put next to it, exits 0 when the property holds on the demonstrated input and non-zero when it is violated) — it must FAIL with the change applied and PASS on the unchanged checkout; keep all its input files next to it; it must not depend on /verif or on your worktree path;
  - meta.json: {{"property": "{pid}", "summary": what was changed and why it breaks the property, "needs": what specific input/sequence/interleaving is needed for it to manifest, "files_changed": [...], "verified": {{"compiles": true, "tests_pass_with_change": true, "demo_fails_with_change": true, "demo_passes_without_change": true}}}}  — only set a flag to true if you actually ran it and saw it.
Verify everything yourself: apply patch → build → run full test suite (must pass) → run demo (must fail) → `git checkout -- . && git clean -fd -e target` → run demo (must pass). Then continue with the next change from a clean tree.
When done: remove the worktree and its build output (`git -C /repo worktree remove --force /tmp/mutwt-{pid}`; rm -rf if anything is left) but KEEP /tmp/mut/{pid}/. Report, per change, a 3-line summary (site, mechanism, what is needed to see it) and the verification results you observed.""")

#!/bin/bash
# usage: tools/adopt_mutation.sh /tmp/mut/C10/1 C10_1
# Confirms a candidate change in a scratch worktree of /repo's HEAD (tools/confirm_mutation.sh: demo passes on the clean tree,
# patch applies, full test suite passes with it, demo fails with it) and, only then, keeps it as /verif/seeded/<id>/.
SRC=$(realpath "$1"); ID=$2
res=$(bash /verif/tools/confirm_mutation.sh "$SRC" 2>&1 | tail -1)
echo "$res"
ok=$(python3 - "$res" <<'PY'
import json,sys,re
try:
    r=json.loads(sys.argv[1])
except Exception:
    print("no"); sys.exit()
t=r.get("tests_with_change","")
m=re.match(r"(\d+) passed (\d+) failed",t)
good = m and int(m.group(1))>=209 and int(m.group(2))==0 and r["demo_rc_clean"]==0 and r["demo_rc_mutated"]!=0
print("yes" if good else "no")
PY
)
if [ "$ok" = "yes" ]; then
  rm -rf /verif/seeded/$ID; mkdir -p /verif/seeded/$ID
  cp -r "$SRC"/. /verif/seeded/$ID/
  python3 - "$ID" "$res" <<'PY'
import json,sys,subprocess
id_,res=sys.argv[1],json.loads(sys.argv[2])
p='/verif/seeded/%s/meta.json'%id_
m=json.load(open(p))
m['confirmed_by_coordinator']={'repo_head':subprocess.run(['git','-C','/repo','rev-parse','--short','HEAD'],capture_output=True,text=True).stdout.strip(),
  'ran':'tools/confirm_mutation.sh (scratch worktree: demo on clean tree, git apply, cargo test --workspace --no-fail-fast --offline, demo with change)',
  'tests_with_change':res['tests_with_change'],'demo_rc_clean':res['demo_rc_clean'],'demo_rc_mutated':res['demo_rc_mutated']}
json.dump(m,open(p,'w'),indent=1)
PY
  echo "ADOPTED $ID"
else
  echo "REJECTED $ID"
fi

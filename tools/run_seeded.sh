#!/bin/bash
# usage: run_seeded.sh <seeded dir> [tier]  -- applies the patch to /repo, runs the property's check, undoes the patch
D=$(realpath "$1"); TIER=${2:-quick}
P=$(python3 -c "import json;print(json.load(open('$D/meta.json'))['property'])")
cd /repo && git apply "$D/patch.diff" || exit 9
cd /verif && ./check $P --tier $TIER > /tmp/seeded_run.out 2>/tmp/seeded_run.err; rc=$?
cd /repo && git checkout -- . && git clean -fdq
echo "property=$P rc=$rc"; grep -E "^VIOLATION|^KNOWN" /tmp/seeded_run.out | cut -c1-200 | head -4

#!/bin/bash
# usage: tools/seeded_matrix.sh [tier] [ids...]   -- runs every seeded change (or the named ones) through tools/mutcheck against the
# property recorded in its meta.json and writes seeded/RESULTS.md (which check caught which change, with the first VIOLATION line).
TIER=${1:-quick}; shift
cd /verif
IDS=${@:-$(ls seeded | grep -E '^C[0-9]+_' | sort)}
OUT=seeded/RESULTS.md
TMP=$(mktemp)
for id in $IDS; do
  [ -f seeded/$id/patch.diff ] || continue
  P=$(python3 -c "import json;print(json.load(open('seeded/$id/meta.json'))['property'])" 2>/dev/null | tail -1)
  if ! python3 -c "import json,sys;m=json.load(open('MANIFEST.json'));sys.exit(0 if any(c['property_id']=='$P' for c in m['checks']) else 1)" 2>/dev/null; then
    echo "| $id | $P | (property not claimed) | |" >> $TMP; continue; fi
  res=$(timeout 3000 tools/mutcheck seeded/$id/patch.diff $P $TIER 2>&1 | grep -v '^WARNING conda')
  rc=$(echo "$res" | grep -oE "rc=[0-9]+" | head -1)
  v=$(echo "$res" | grep -E "^VIOLATION" | head -1 | sed 's#replay=[^ ]*/##' | cut -c1-120)
  [ -z "$v" ] && v="(no VIOLATION line)"
  what=$(echo "$res" | grep -m1 '"what"' | cut -c1-200 | tr '|' '/')
  echo "| $id | $P | $rc $v | $what |" >> $TMP
  echo "$id $P $rc $v"
done
{ echo "# Seeded changes vs checks (tier: $TIER; run $(date -u +%FT%TZ) against /repo $(git -C /repo rev-parse --short HEAD))"; echo;
  echo "| seeded change | property | check result (tools/mutcheck) | first reported failure |"; echo "|---|---|---|---|"; cat $TMP; } > $OUT.new
# merge: keep rows of ids not re-run
if [ -f $OUT ]; then grep -E '^\| C[0-9]+_' $OUT | while IFS= read -r line; do id=$(echo "$line" | cut -d'|' -f2 | tr -d ' '); grep -q "^| $id |" $OUT.new || echo "$line" >> $OUT.new; done; fi
mv $OUT.new $OUT; rm -f $TMP

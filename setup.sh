#!/bin/sh
# MANIFEST.setup_cmd: build the whole framework offline from files on disk.  Never fails as a whole: whatever part does not
# build is reported by the check that needs it (a check rebuilds what it needs itself).
cd "$(dirname "$0")"
export CARGO_NET_OFFLINE=true RUST_BACKTRACE=0
mkdir -p .cache evidence extract/gen
python3 - <<'PY'
import sys, os, glob, traceback
sys.path.insert(0, "checks"); sys.path.insert(0, "translate")
import common
common.register_translators()
for name, fn in common.TRANSLATORS.items():
    try:
        print("translator", name, fn())
    except Exception as e:
        print("translator", name, "FAILED:", e)
def step(what, fn):
    try:
        fn()
        print("setup:", what, "ok")
    except Exception as e:
        print("setup:", what, "FAILED:", str(e)[-600:])
def coq_all():
    rc, out = common.coq_make([], timeout=3000)
    print(out[-2500:])
    if rc != 0:
        print("WARNING: the Coq development did not build completely (rc=%d); individual checks will report it" % rc)
step("coq (full .vo build)", coq_all)
units = ["model"] + sorted(os.path.basename(p)[len("driver_"):-3] for p in glob.glob("extract/driver_*.ml"))
for u in units:
    step("model unit " + u, lambda u=u: common.build_model(u))
step("probe harness", common.build_probe)
for d in sorted(glob.glob("harness_*")):
    if os.path.exists(os.path.join(d, "Cargo.toml")):
        import re
        m = re.search(r'name\s*=\s*"([^"]+)"', open(os.path.join(d, "Cargo.toml")).read())
        step("probe " + d, lambda d=d, m=m: common.build_probe(d, m.group(1) if m else "mosprobe"))
step("mos with hooks", lambda: common.build_mos(hooks=True))
PY
echo "setup done"
exit 0

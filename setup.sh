#!/bin/sh
# MANIFEST.setup_cmd: build the whole framework offline from files on disk.
set -e
cd "$(dirname "$0")"
export CARGO_NET_OFFLINE=true RUST_BACKTRACE=0
mkdir -p .cache evidence extract/gen
python3 - <<'PY'
import sys, os
sys.path.insert(0, "checks"); sys.path.insert(0, "translate")
import common
common.register_translators()
for name, fn in common.TRANSLATORS.items():
    try:
        print("translator", name, fn())
    except Exception as e:
        print("translator", name, "FAILED:", e)
rc, out = common.coq_make([])
print(out[-3000:])
if rc != 0:
    print("WARNING: the Coq development did not build completely (rc=%d); individual checks will report it" % rc)
common.build_model()
common.build_probe()
try:
    common.build_mos(hooks=True)
except Exception as e:
    print("mos build with hooks failed:", e)
PY
echo "setup done"

"""G-hist: LSP histories for C14 (and reusable by C15/C16).

A history = {"disk": {name: text}, "events": [event]}, at most 40 events over main.asm + two importable files (+ names that
are not part of the project).  Events:
  {"ev": "open"|"change", "file": name, "text": text}
  {"ev": "close", "file": name}
  {"ev": "req", "method": m, "file": name, "line": l, "ch": c, "cls": position class, ["new": new_name]}
Position classes: "ident" (inside an identifier occurrence), "any" (anywhere inside the document), "eol1" (column = length+1),
"eolfar", "eofline" (line = number of lines), "eoffar", "inchar" (byte index / UTF-16 index inside a multi-byte character or
directly after one), "huge" (2^31-1), "doc" (request without a position).
All random choices come from the `rng` passed in.
"""
import re

FILES = ["main.asm", "b.asm", "c.asm"]
POSITIONAL = ["textDocument/hover", "textDocument/completion", "textDocument/definition", "textDocument/references",
              "textDocument/documentHighlight", "textDocument/prepareRename", "textDocument/rename",
              "textDocument/onTypeFormatting"]
DOCUMENT = ["textDocument/documentSymbol", "textDocument/semanticTokens/full", "textDocument/codeLens",
            "textDocument/formatting"]
WORKSPACE = ["workspace/symbol"]
ALL_METHODS = POSITIONAL + DOCUMENT + WORKSPACE

# line pools; names are unique per file so that a position is covered by at most one definition (F-C16a is not C14's)
MAIN_LINES = [
    "start: nop", "lda start", "jmp start", "data: { inner: nop }", "lda data.inner", ".const k = 5", ".var v = k + 1",
    ".byte 1, k, <start", ".word start + 1", "lda #k", "ldx #<data.inner", "sta $d020", "* = $2000",
    ".macro mac(arg) { lda #arg }", "mac(3)", ".if k { nop } else { brk }", ".loop 2 { inx }", "{ local: nop\n  jmp local }",
    "/// documented label\ndoc: rts", "jsr doc", '.text "hi"', '.text "hé€"', "nop // café € \U0001F600 x",
    "/* ééé */ lda start", ".assert k == 5", '.test "t1" { brk }', "bne start", "lda bsym", "jmp bscope.binner",
    "lda csym", ".align 4", "rts", '.segment "default" { seg1: nop }', '.segment "default" { .segment "default" { seg2: nop } }',
    '.segment "default" {\n  segl: nop\n  .segment "default" {\n    jmp segl\n  }\n}',
]
# every import form: all / specific, with and without `as`, several arguments, dotted paths, `* as ns`, with a parameter block
IMPORTS = ['.import * from "b.asm"', '.import csym from "c.asm"', '.import * from "c.asm"', '.import bsym from "b.asm"',
           '.import bsym as alias from "b.asm"', '.import * from "missing.asm"', '.import bsym, bscope as bs2 from "b.asm"',
           '.import * as ns from "c.asm"', '.import csym as c1, cscope as c2 from "c.asm"',
           '.import * from "b.asm" { .const bk2 = 1 }', '.import bsym from "b.asm" {\n  .const bk3 = 2\n}',
           '.import bscope.binner as deep from "b.asm"', '.import   bsym   as   wide   from   "b.asm"']
B_LINES = ["bsym: nop", "bscope: { binner: rts }", ".const bk = 7", "lda #bk", "jmp bsym", "/// doc for b\nbdoc: nop",
           '.import * from "c.asm"', "nop // €€", '.test "tb" { brk }', "lda bscope.binner", '.import * from "main.asm"', '.import csym as viab from "c.asm"',
           '.segment "default" { bseg: nop }']
C_LINES = ['.test "tc" { brk }', "csym: nop", "cscope: { cinner: rts }", ".const ck = 9", "ldy #ck", "jmp csym", "nop /* \U0001F600 */",
           '.import * from "b.asm"', '.import * from "c.asm"', '.import bsym as viac, bk from "b.asm"']      # cyclic with b.asm's import of c.asm / a self-import
ERROR_LINES = ["lda", "lda undefined_name", ")", "foo bar", ".const", "jmp (", "lda #", '.import * from "nowhere.asm"', "}", "{",
               "start: nop", "K"]
POOLS = {"main.asm": MAIN_LINES, "b.asm": B_LINES, "c.asm": C_LINES}


def gen_text(rng, name, broken=None):
    pool = POOLS.get(name, MAIN_LINES)
    n = rng.randrange(0, 8)
    lines = [rng.choice(pool) for _ in range(n)]
    if name == "main.asm":
        for _ in range(rng.choice([0, 1, 1, 2])):
            lines.insert(rng.randrange(0, len(lines) + 1), rng.choice(IMPORTS))
    if broken is None:
        broken = rng.random() < 0.25
    if broken:
        lines.insert(rng.randrange(0, len(lines) + 1), rng.choice(ERROR_LINES))
    eol = "\r\n" if rng.random() < 0.08 else "\n"
    text = eol.join(lines)
    if lines and rng.random() < 0.7:
        text += eol
    return text


def split_lines(text):
    """lines as mos's CodeMap sees them: split at \\n, terminators (\\r, \\n) trimmed from the end"""
    return [l.rstrip("\r\n") for l in text.split("\n")]


IDENT = re.compile(r"[A-Za-z_][A-Za-z0-9_]*")
# names the line pools define (labels, constants, macros, import aliases): positions where rename / definition have answers
SYMBOLS = {"seg1", "seg2", "segl", "bseg", "start", "data", "inner", "k", "v", "mac", "arg", "local", "doc", "bsym", "bscope", "binner", "bk", "bdoc", "csym",
           "cscope", "cinner", "ck", "alias", "bs2", "ns", "c1", "c2", "deep", "wide", "viab", "viac"}


def utf16_len(s):
    return len(s.encode("utf-16-le")) // 2


def gen_position(rng, text, cls=None):
    lines = split_lines(text)
    if cls is None:
        cls = rng.choice(["ident", "ident", "ident", "any", "any", "eol1", "eolfar", "eofline", "eoffar", "inchar", "inchar", "huge"])
    nonascii = [i for i, l in enumerate(lines) if any(ord(c) > 127 for c in l)]
    if cls == "inchar" and not nonascii:
        cls = "eol1"
    if cls in ("ident", "symbol"):
        occ = [(i, m.start(), m.end()) for i, l in enumerate(lines) for m in IDENT.finditer(l)]
        sym = [o for o in occ if lines[o[0]][o[1]:o[2]] in SYMBOLS]
        if sym and (cls == "symbol" or rng.random() < 0.5):
            occ = sym
        cls = "ident"
        if not occ:
            cls = "any"
        else:
            i, a, b = rng.choice(occ)
            # columns are sent as UTF-16 units of the prefix (what an editor would send)
            col = rng.randrange(a, b + 1)
            return cls, i, utf16_len(lines[i][:col])
    li = rng.randrange(0, len(lines))
    if cls == "any":
        return cls, li, rng.randrange(0, utf16_len(lines[li]) + 1)
    if cls == "eol1":
        return cls, li, len(lines[li].encode("utf-8")) + 1
    if cls == "eolfar":
        return cls, li, len(lines[li].encode("utf-8")) + rng.choice([2, 7, 50, 1000])
    if cls == "eofline":
        return cls, len(lines), 0
    if cls == "eoffar":
        return cls, len(lines) + rng.choice([1, 3, 100]), rng.choice([0, 0, 5])
    if cls == "huge":
        return cls, rng.choice([li, 2 ** 31 - 1]), 2 ** 31 - 1
    # inchar: a byte index that is not a char boundary, or the boundary right after a multi-byte char (the `pos + 1`
    # arithmetic of the handlers), or a UTF-16 index between surrogates
    li = rng.choice(nonascii)
    l = lines[li]
    cands = []
    off = 0
    for c in l:
        n = len(c.encode("utf-8"))
        if n > 1:
            cands += [off + k for k in range(1, n)] + [off + n, off + n + 1, off]
        off += n
    return cls, li, rng.choice(cands)


def mutate_typing(rng, text, steps):
    """a typing sequence: `steps` successive texts, each one character inserted or deleted; passes through broken states"""
    out = []
    snippet = rng.choice(MAIN_LINES + ERROR_LINES + IMPORTS).split("\n")[0]
    if rng.random() < 0.5:
        # type the snippet (or the start of it) on a new line at a random line boundary
        bounds = [0] + [i + 1 for i, ch in enumerate(text) if ch == "\n"] + [len(text)]
        at = rng.choice(bounds)
        cur = text[:at] + "\n" + text[at:]
        pos = at
        out.append(cur)
        for ch in snippet[:max(0, steps - 1)]:
            cur = cur[:pos] + ch + cur[pos:]
            pos += 1
            out.append(cur)
    else:
        # delete backwards from a random position
        pos = rng.randrange(0, len(text) + 1)
        cur = text
        for _ in range(steps):
            if pos == 0:
                break
            cur = cur[:pos - 1] + cur[pos:]
            pos -= 1
            out.append(cur)
    return out[:steps]


def gen_request(rng, buffers, disk, method=None, file=None, cls=None):
    if method is None:
        # the two symbol listings walk every file of the project: asked for more often
        method = rng.choice(ALL_METHODS + ["workspace/symbol", "workspace/symbol", "textDocument/documentSymbol"])
    known = sorted(set(buffers) | set(disk))
    if file is None:
        r = rng.random()
        if r < 0.75 and known:
            file = rng.choice(known)
        elif r < 0.85:
            file = rng.choice(FILES)
        elif r < 0.93:
            file = rng.choice(["other.asm", "sub/dir/none.asm", "main.ASM"])
        else:
            file = rng.choice(["untitled:Untitled-1", "file:///nonexistent-root/x.asm"])
    ev = {"ev": "req", "method": method, "file": file, "line": 0, "ch": 0, "cls": "doc"}
    if method in POSITIONAL:
        text = buffers.get(file, disk.get(file))
        if text is None:
            ev["cls"], ev["line"], ev["ch"] = "nofile", rng.choice([0, 0, 3]), rng.choice([0, 1, 9])
        else:
            ev["cls"], ev["line"], ev["ch"] = gen_position(rng, text, cls)
        if method == "textDocument/rename":
            ev["new"] = rng.choice(["renamed", "x9", "start", "q"])
    if method == "workspace/symbol" and rng.random() < 0.4:
        ev["query"] = rng.choice(["b", "c", "s", "bs", "cscope", "zz"])
    return ev


def tokens_of_finished_text(rng, events, buffers, disk, f):
    """semantic tokens exist only for text that parses: ask for them right after a whole-text event (not only in the middle of
    typing sequences, where the line being typed is a parse error)"""
    if rng.random() < 0.6:
        events.append(gen_request(rng, buffers, disk, method="textDocument/semanticTokens/full", file=f))


def gen_history(rng, max_events=40):
    disk = {}
    for f in FILES:
        if rng.random() < (0.25 if f == "main.asm" else 0.5):
            disk[f] = gen_text(rng, f, broken=rng.random() < 0.15)
    buffers = {}
    events = []
    target = rng.randrange(6, max_events + 1)
    # usually start by opening main
    if rng.random() < 0.85:
        t = gen_text(rng, "main.asm")
        buffers["main.asm"] = t
        events.append({"ev": "open", "file": "main.asm", "text": t})
        tokens_of_finished_text(rng, events, buffers, disk, "main.asm")
    while len(events) < target:
        r = rng.random()
        closed = [f for f in FILES if f not in buffers]
        if r < 0.10 and closed:
            f = rng.choice(closed)
            t = disk[f] if (f in disk and rng.random() < 0.5) else gen_text(rng, f)
            buffers[f] = t
            events.append({"ev": "open", "file": f, "text": t})
            tokens_of_finished_text(rng, events, buffers, disk, f)
        elif r < 0.20 and buffers:
            f = rng.choice(sorted(buffers))
            t = gen_text(rng, f)
            buffers[f] = t
            events.append({"ev": "change", "file": f, "text": t})
            tokens_of_finished_text(rng, events, buffers, disk, f)
        elif r < 0.32 and buffers:
            f = rng.choice(sorted(buffers))
            for t in mutate_typing(rng, buffers[f], min(rng.randrange(2, 9), target - len(events))):
                buffers[f] = t
                events.append({"ev": "change", "file": f, "text": t})
                if rng.random() < 0.35 and len(events) < target:
                    events.append(gen_request(rng, buffers, disk, file=f))
        elif r < 0.38 and buffers:
            f = rng.choice(sorted(buffers))
            del buffers[f]
            events.append({"ev": "close", "file": f})
        elif r < 0.47 and buffers:
            # a rename (which must leave no trace in the server) followed by requests whose answers a renamed symbol would change
            f = rng.choice(sorted(buffers))
            ev = gen_request(rng, buffers, disk, method="textDocument/rename", file=f, cls="symbol")
            events.append(ev)
            for m in ["textDocument/completion"] + rng.sample(["textDocument/rename", "textDocument/prepareRename",
                                                               "textDocument/definition", "textDocument/hover", "workspace/symbol"],
                                                              rng.randrange(1, 3)):
                if len(events) < target:
                    e2 = gen_request(rng, buffers, disk, method=m, file=f, cls="symbol")
                    if m in ("textDocument/completion", "textDocument/rename") and rng.random() < 0.8:
                        e2["line"], e2["ch"] = ev["line"], ev["ch"]
                    events.append(e2)
        elif r < 0.55:
            # a multi-file project whose imported files define labels on late lines (files of different lengths): every
            # symbol the listings return must lie inside the document its uri names
            for f in ("b.asm", "c.asm"):
                pad = "".join(rng.choice(["\n", "// pad\n", "nop\n"]) for _ in range(rng.randrange(0, 9)))
                t = pad + gen_text(rng, f, broken=False)
                events.append({"ev": "open" if f not in buffers else "change", "file": f, "text": t})
                buffers[f] = t
            t = "\n".join(rng.sample(['.import * from "b.asm"', '.import * from "c.asm"', "start: nop", "lda bsym", "jmp csym",
                                      rng.choice(IMPORTS)], 4)) + "\n"
            events.append({"ev": "open" if "main.asm" not in buffers else "change", "file": "main.asm", "text": t})
            buffers["main.asm"] = t
            events.append(gen_request(rng, buffers, disk, method="workspace/symbol", file="main.asm"))
            events.append(gen_request(rng, buffers, disk, method="textDocument/semanticTokens/full", file=rng.choice(["main.asm", "b.asm", "c.asm"])))
            for f in rng.sample(["main.asm", "b.asm", "c.asm"], 2):
                events.append(gen_request(rng, buffers, disk, method="textDocument/documentSymbol", file=f))
            # tests of imported files must not show up as lenses of the importing document
            events.append(gen_request(rng, buffers, disk, method="textDocument/codeLens", file=rng.choice(["main.asm", "c.asm"])))
        elif r < 0.57:
            # open a file that is not part of the project
            f = rng.choice(["other.asm", "other.asm", "untitled:Untitled-1"])
            t = gen_text(rng, f)
            kind = "open" if f not in buffers else "change"
            if not f.startswith("untitled:"):
                buffers[f] = t
            events.append({"ev": kind, "file": f, "text": t})
        else:
            events.append(gen_request(rng, buffers, disk))
    return {"disk": disk, "events": events[:max_events]}


def final_buffers(hist, upto=None):
    b = {}
    for e in hist["events"][:upto]:
        if e["ev"] in ("open", "change"):
            b[e["file"]] = e["text"]
        elif e["ev"] == "close":
            b.pop(e["file"], None)
    return b

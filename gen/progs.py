"""Grammar-based generator of mos programs with an explicit layout skeleton (used by checks/c05.py and checks/c08.py).

A program is a list of items:
  ("lex", text, ci)    a lexeme; ci=True: letter case is not significant (mnemonics, directives, registers, hex digits,
                       `as from else`, encodings, true/false)
  ("slot", kind)       a place where the grammar permits trivia: "ws" single-line trivia (ws(..) wrapper),
                       "mws" multi-line trivia (mws(..) wrapper), "nl" multi-line trivia that must contain a line end
                       (between statements), "none" nothing may be inserted (inside a path, before a label's colon ...)
`render(items, rng, style)` chooses trivia for every slot and a letter case for every ci lexeme; two renderings of the same
items are layout variants of each other (the whitelisted boundaries of property C08).
"""
import random

MNEMONICS_IMPLIED = ["asl", "brk", "clc", "cld", "cli", "clv", "dex", "dey", "inx", "iny", "lsr", "nop", "pha", "php", "pla",
                     "plp", "rol", "ror", "rti", "rts", "sec", "sed", "sei", "tax", "tay", "tsx", "txa", "txs", "tya"]
NAMES = ["foo", "bar", "baz", "qux", "zp0", "ptr", "tmp", "val", "m_one", "_u", "k9", "w", "foo2", "gamma", "count", "vec"]


def lex(t, ci=False):
    return ("lex", t, ci)


def slot(k):
    return ("slot", k)


WS, MWS, NL, NONE = slot("ws"), slot("mws"), slot("nl"), slot("none")


class Gen:
    def __init__(self, rng, assemble=True):
        self.rng = rng
        self.assemble = assemble     # keep the program assemblable (no .file, no undefined names, small values)
        self.consts = ["c_a", "c_b"]
        self.labels = []
        self.macros = []
        self.uid = 0

    def fresh(self, base):
        self.uid += 1
        return "%s%d" % (base, self.uid)

    # ---------------------------------------------------------------- expressions (single-line trivia only)
    def number(self, small=False):
        r = self.rng
        v = r.choice([0, 1, 2, 3, 7, 10, 16, 42, 100, 127, 128, 200, 255] + ([] if small else [256, 1000, 4096, 0xd020, 65535]))
        k = r.random()
        if k < 0.4:
            return [lex(str(v))]
        if k < 0.75:
            return [lex("$"), WS if r.random() < 0.05 else NONE, lex("%x" % v, True)]
        if k < 0.9:
            return [lex("%"), NONE, lex("{0:b}".format(v))]
        if v in (0, 1):
            return [lex("true" if v else "false", True)]
        return [lex("0" + str(v))]

    def factor(self, depth, small=False):
        r = self.rng
        k = r.random()
        if depth <= 0 or k < 0.45:
            return self.number(small)
        if k < 0.62:
            name = r.choice(self.consts)
            pre = []
            if r.random() < 0.25:
                pre = [lex(r.choice("<>")), WS]
            return pre + [lex(name)]
        if k < 0.7 and self.labels:
            return [lex(r.choice("<>")), WS, lex(r.choice(self.labels))]
        if k < 0.8:
            return [lex("("), WS] + self.expr(depth - 1, small) + [WS, lex(")")]
        if k < 0.86:
            return [lex("defined"), WS, lex("("), WS, lex(r.choice(self.consts + ["nope"])), WS, lex(")")]
        if k < 0.90:
            return [lex("!"), WS] + self.number(small)
        if k < 0.95:
            # both prefix operators: the trivia between `!` and `-` belongs to the `-` token; behind `!` a leading `-` is the
            # unary minus (not the scope identifier `-`), so the slot after it is a boundary here
            return [lex("!"), WS, lex("-"), WS] + (self.number(small) if r.random() < 0.6 else [lex(r.choice(self.consts))])
        return self.number(small)

    def expr(self, depth=2, small=False):
        r = self.rng
        items = self.factor(depth, small)
        n = r.choice([0, 0, 0, 1, 1, 2])
        for _ in range(n):
            op = r.choice(["+", "-", "*", "/", "%", "<<", ">>", "^", "==", "!=", ">=", "<=", ">", "<", "&&", "||"])
            rhs = self.factor(depth - 1, True)
            if op in ("/", "%"):
                rhs = [lex(str(r.choice([1, 2, 3, 5, 16])))]
            if op in ("<<", ">>"):
                rhs = [lex(str(r.choice([0, 1, 2, 3])))]
            items += [WS, lex(op), WS] + rhs
        return items

    def byte_expr(self):
        # a value that fits a byte
        r = self.rng
        if r.random() < 0.3:
            return [lex("<"), WS, lex(r.choice(self.consts))]
        return self.number(True)

    def string(self):
        r = self.rng
        s = r.choice(["hello", "A b", "x;y // not a comment", "/* still text */", "1+2", ""])
        items = [lex('"'), NONE]
        if s:
            items += [lex(s), NONE]
        if r.random() < 0.3:
            items += [lex("{"), WS if r.random() < 0.3 else NONE, lex(r.choice(self.consts)), NONE, lex("}"), NONE]
        return items + [lex('"')]

    # ---------------------------------------------------------------- statements
    def instruction(self):
        r = self.rng
        k = r.random()
        if k < 0.2:
            return [lex(r.choice(MNEMONICS_IMPLIED), True)]
        m = r.choice(["lda", "ldx", "ldy", "sta", "adc", "and", "cmp", "eor", "ora", "sbc", "inc", "dec", "bit", "jmp", "jsr", "stx", "sty", "cpx", "cpy"])
        if k < 0.45 and m in ("lda", "ldx", "ldy", "adc", "and", "cmp", "eor", "ora", "sbc", "cpx", "cpy"):
            return [lex(m, True), WS, lex("#"), WS] + self.byte_expr()
        if k < 0.55 and m in ("lda", "sta", "adc", "and", "cmp", "eor", "ora", "sbc"):
            return [lex(m, True), WS, lex("("), WS] + self.number(True) + [WS, lex(","), WS, lex("x", True), WS, lex(")")]
        if k < 0.65 and m in ("lda", "sta", "adc", "and", "cmp", "eor", "ora", "sbc"):
            return [lex(m, True), WS, lex("("), WS] + self.number(True) + [WS, lex(")"), WS, lex(","), WS, lex("y", True)]
        if k < 0.7:
            return [lex("jmp", True), WS, lex("("), WS, lex("$"), NONE, lex("12fe", True), WS, lex(")")]
        if k < 0.85 and m in ("lda", "sta", "adc", "and", "cmp", "eor", "ora", "sbc", "inc", "dec", "ldy"):
            return [lex(m, True), WS] + self.absolute() + [WS, lex(","), WS, lex("x", True)]
        if m in ("jmp", "jsr") and self.labels:
            return [lex(m, True), WS, lex(r.choice(self.labels))]
        if m in ("jmp", "jsr"):
            return [lex(m, True), WS, lex("$"), NONE, lex("c000", True)]
        return [lex(m, True), WS] + self.absolute()

    def absolute(self):
        r = self.rng
        if r.random() < 0.5:
            return [lex("$"), NONE, lex(r.choice(["10", "fe", "d020", "0400", "C000", "ff"]), True)]
        while True:
            e = self.expr(1)
            if e[0][1] != "(":      # an operand that starts with a parenthesis is an indirect operand
                return e

    def data(self):
        r = self.rng
        d = r.choice([".byte", ".word", ".dword"])
        items = [lex(d, True), WS]
        n = r.randrange(1, 5)
        for i in range(n):
            if i:
                items += [WS, lex(","), WS]
            items += self.number(True) if d == ".byte" else self.expr(1)
        return items

    def text(self):
        r = self.rng
        items = [lex(".text", True), WS]
        if r.random() < 0.6:
            items += [lex(r.choice(["ascii", "petscii", "petscreen"]), True), WS]
        return items + self.string()

    def const(self, nested=False):
        r = self.rng
        name = self.fresh("k_")
        items = [lex(r.choice([".const", ".var"]), True), WS, lex(name), WS, lex("="), WS] + self.expr(2)
        if not nested:
            self.consts.append(name)
        return items

    def label(self, with_block=False, nested=False):
        name = self.fresh("l_")
        if not nested:
            self.labels.append(name)
        items = [lex(name), NONE, lex(":")]
        if with_block:
            items += [MWS] + self.block(2)
        return items

    def block(self, n):
        items = [lex("{")]
        body = self.statements(n, nested=True)
        if body:
            items += [MWS] + body + [MWS]
        else:
            items += [MWS]
        return items + [lex("}")]

    def braces(self):
        return self.block(self.rng.randrange(0, 3))

    def pc(self):
        return [lex("*"), WS, lex("="), WS, lex("$"), NONE, lex(self.rng.choice(["2000", "3000", "C100"]), True)]

    def align(self):
        return [lex(".align", True), WS, lex(str(self.rng.choice([2, 4, 8, 16])))]

    def loop(self):
        return [lex(".loop", True), WS, lex(str(self.rng.randrange(1, 4))), MWS] + self.block(1)

    def if_(self):
        r = self.rng
        items = [lex(".if", True), WS] + self.expr(1) + [MWS] + self.block(1)
        if r.random() < 0.6:
            items += [MWS, lex("else", True), MWS] + self.block(1)
        return items

    def macro_def(self):
        r = self.rng
        name = self.fresh("mac_")
        nargs = r.randrange(0, 3)
        args = ["p%d" % i for i in range(nargs)]
        items = [lex(".macro", True), WS, lex(name), WS, lex("("), WS]
        for i, a in enumerate(args):
            if i:
                items += [WS, lex(","), WS]
            items += [lex(a)]
        items += [WS, lex(")"), MWS, lex("{"), MWS]
        if args:
            items += [lex("lda", True), WS, lex("#"), WS, lex("<"), WS, lex(args[0]), NL]
        items += [lex("nop", True), MWS, lex("}")]
        self.macros.append((name, nargs))
        return items

    def macro_call(self):
        r = self.rng
        name, nargs = r.choice(self.macros)
        items = [lex(name), WS, lex("("), WS]
        for i in range(nargs):
            if i:
                items += [WS, lex(","), WS]
            items += self.number(True)
        return items + [WS, lex(")")]

    def segment_def(self, name, start):
        return [lex(".define", True), WS, lex("segment"), MWS, lex("{"), MWS, lex("name"), MWS, lex("="), MWS, lex('"'), NONE, lex(name), NONE, lex('"'), NL,
                lex("start"), MWS, lex("="), MWS, lex("$"), NONE, lex(start, True), MWS, lex("}")]

    def segment_use(self, name):
        return [lex(".segment", True), WS, lex('"'), NONE, lex(name), NONE, lex('"'), MWS] + self.block(2)

    def import_(self):
        r = self.rng
        k = r.random()
        items = [lex(".import", True), WS]
        if k < 0.4:
            items += [lex("*")]
            if r.random() < 0.5:
                ns = self.fresh("ns_")
                items += [WS, lex("as", True), WS, lex(ns)]
            else:
                self.consts.append("lib_c")
        else:
            alias = self.fresh("imp_")
            items += [lex("lib_c"), WS, lex("as", True), WS, lex(alias)]
            self.consts.append(alias)
            if r.random() < 0.4:
                items += [WS, lex(","), WS, lex("lib_l")]
        items += [MWS, lex("from", True), WS, lex('"'), NONE, lex("lib.asm"), NONE, lex('"')]
        return items

    def test_(self):
        name = self.fresh("t_")
        return [lex(".test", True), WS, lex('"'), NONE, lex(name), NONE, lex('"'), MWS, lex("{"), MWS, lex("lda", True), WS, lex("#"), NONE, lex("1"), NL,
                lex(".assert", True), WS, lex("1"), WS, lex("=="), WS, lex("1"), WS] + self.string() + \
               [NL, lex(".trace", True), WS, lex("("), WS, lex("c_a"), WS, lex(")"), NL, lex(".trace", True), MWS, lex("}")]

    def file_(self):
        return [lex(".file", True), WS] + self.string()

    def statement(self, nested=False):
        r = self.rng
        k = r.random()
        if k < 0.34:
            return self.instruction()
        if k < 0.44:
            return self.data()
        if k < 0.5:
            return self.text()
        if k < 0.58:
            return self.const(nested)
        if k < 0.66:
            return self.label(with_block=r.random() < 0.3, nested=nested)
        if k < 0.7:
            return self.braces()
        if k < 0.74 and not nested:
            return self.align()
        if k < 0.78:
            return self.loop()
        if k < 0.84:
            return self.if_()
        if k < 0.88 and not nested:
            return self.macro_def()
        if k < 0.93 and self.macros:
            return self.macro_call()
        if k < 0.95 and not nested:
            return self.test_()
        if k < 0.97 and not self.assemble:
            return self.file_()
        return self.instruction()

    def statements(self, n, nested=False):
        items = []
        for i in range(n):
            if i:
                items.append(NL)
            items += self.statement(nested)
        return items

    def program(self, n=None):
        r = self.rng
        n = n or r.randrange(3, 14)
        items = [lex(".const", True), WS, lex("c_a"), WS, lex("="), WS, lex("5"), NL,
                 lex(".const", True), WS, lex("c_b"), WS, lex("="), WS, lex("$"), NONE, lex("1234", True), NL]
        files = {}
        if r.random() < 0.3:
            items += self.import_() + [NL]
            files["lib.asm"] = ".const lib_c = 9\nlib_l: nop\n"
        if r.random() < 0.25:
            items += self.segment_def("code", "4000") + [NL] + self.segment_use("code") + [NL]
        if r.random() < 0.3:
            items += self.pc() + [NL]
        items += self.statements(n)
        return items, files


# ---------------------------------------------------------------------------------------------------------- rendering
NON_ASCII = ["\u2550\u2550\u2550 banner \u2550\u2550\u2550", "gr\u00fc\u00dfe \u2014 na\u00efve", "\u00e9", "\U0001f600 ok", "\u212a\u00df\u00e4"]


def block_comment(rng, allow_nl):
    body = rng.choice(["c", " note ", "lda #1", " x /* nested */ y ", "*", " / ", "}", "**", " a /* b /* c */ d */ e ", "/**/", "x/*y*/", "/*/**/*/"])
    if rng.random() < 0.3:
        # multi-byte UTF-8 text: byte and character counts differ
        body = rng.choice([" %s ", "%s", "/* %s */", " a /* %s */ b "]) % rng.choice(NON_ASCII)
    if allow_nl and rng.random() < 0.3:
        body += "\n more"
    return "/*" + body + "*/"


def trivia(rng, kind, need, style):
    """a trivia string for a slot; need: at least one separating character is required"""
    if kind == "none":
        return ""
    if style == "min":
        if kind == "nl":
            return "\n"
        return " " if need else ""
    eol = "\r\n" if style == "crlf" else "\n"
    out = ""
    if kind == "ws":
        n = rng.choice([0, 1, 1, 1, 2, 3]) if style != "heavy" else rng.choice([1, 2, 3])
        for _ in range(n):
            k = rng.random()
            if k < 0.55:
                out += " " * rng.randrange(1, 4)
            elif k < 0.75:
                out += "\t"
            else:
                out += block_comment(rng, style == "heavy")
        if need and not out:
            out = " "
        return out
    # multi-line
    n = rng.choice([0, 1, 1, 2, 3]) if style != "heavy" else rng.choice([2, 3, 4])
    have_nl = False
    for _ in range(n):
        k = rng.random()
        if k < 0.3:
            out += " " * rng.randrange(1, 5)
        elif k < 0.4:
            out += "\t"
        elif k < 0.55:
            out += block_comment(rng, True)
        elif k < 0.7:
            out += "//" + rng.choice(["", " c", " lda #1 ; x", "/ doc", " }", " " + rng.choice(NON_ASCII)]) + eol
            have_nl = True
        else:
            out += (rng.choice(["\n", "\r\n"]) if style == "mixed" else eol)
            have_nl = True
    if kind == "nl" and not have_nl:
        out += eol
    if need and not out:
        out = " "
    return out


def recase(rng, t, style):
    if style == "min":
        return t
    k = rng.random()
    if k < 0.4:
        return t.lower()
    if k < 0.7:
        return t.upper()
    return "".join(c.upper() if rng.random() < 0.5 else c.lower() for c in t)


def joins_badly(a, b):
    """would the lexemes a and b, written next to each other, read as something else?"""
    if not a or not b:
        return False
    x, y = a[-1], b[0]
    if (x.isalnum() or x == "_") and (y.isalnum() or y == "_"):
        return True
    pair = x + y
    if pair in ("//", "/*", "*/", "<<", ">>", "<=", ">=", "==", "!=", "&&", "||", "--", "++", "-+", "+-"):
        return True
    return False


def render(items, rng, style="normal"):
    out = []
    prev = ""
    i = 0
    n = len(items)
    while i < n:
        it = items[i]
        if it[0] == "lex":
            t = recase(rng, it[1], style) if it[2] else it[1]
            out.append(t)
            prev = t or prev
            i += 1
        else:
            nxt = ""
            for j in range(i + 1, n):
                if items[j][0] == "lex" and items[j][1]:
                    nxt = items[j][1]
                    break
            need = joins_badly(prev, nxt)
            tr = trivia(rng, it[1], need, style)
            # a block comment must not be glued to a following `/` or `*`, nor follow one
            if tr == "" and need:
                tr = " "
            if tr.endswith("/") and nxt[:1] in ("*", "/"):
                tr += " "
            if prev.endswith("/") and tr[:1] in ("*", "/"):
                tr = " " + tr
            if prev.endswith("*") and tr[:1] == "/":
                tr = " " + tr
            out.append(tr)
            if tr:
                prev = tr
            i += 1
    return "".join(out)


def skeleton(items):
    """the program with canonical minimal layout and lower-case keywords (what all layout variants share)"""
    return render(items, random.Random(0), "min")


# ---------------------------------------------------------------- one text per trivia-bearing wrapper of the grammar
# Key: (grammar function, index of the wrapper inside it) exactly as translated into coq/theories/Gen/ParserTables.v (W_<fn>).
# Value: a text in which `@` marks the place whose trivia THAT wrapper consumes, or "=fn.k": the wrapper can never receive
# trivia because wrapper fn.k, applied just before it at the same position, has consumed it already.  `!` in front: the text
# is expected to give parse diagnostics; `~` in front: the tree does not keep this trivia as an item (the interpolation `{ path }`
# drops the Located and is rendered from its span).  slot_cases() fails when the translated table has a ws/mws wrapper without an entry.
SLOT_TEXTS = {
    ("identifier_path", 0): "=identifier_value.2",
    ("identifier_value", 1): "lda #!@<foo\n", ("identifier_value", 2): "lda #<@foo\n",
    ("register_suffix", 0): "lda $10@,x\n", ("register_suffix", 1): "lda $10,@x\n",
    ("operand", 0): "lda@#1\n", ("operand", 1): "lda@($10),y\n", ("operand", 2): "lda ($10@),y\n",
    ("operand", 3): "lda@($10,x)\n", ("operand", 4): "lda ($10,x@)\n",
    ("instruction", 0): "nop\n@lda #1\n", ("instruction", 1): "nop\n@asl\n",
    ("macro_definition", 0): "nop\n@.macro m(a) { nop }\n", ("macro_definition", 1): ".macro@m(a) { nop }\n",
    ("macro_definition", 2): ".macro m@(a) { nop }\n", ("macro_definition", 3): ".macro m(a@) { nop }\n",
    ("error_impl", 0): "!nop\n@)\n",
    ("label", 0): "nop\n@foo: nop\n",
    ("data", 0): "nop\n@.byte 1\n", ("data", 1): "nop\n@.word 1\n", ("data", 2): "nop\n@.dword 1\n",
    ("varconst_impl", 0): "nop\n@.const a = 1\n", ("varconst_impl", 1): ".var@a = 1\n", ("varconst_impl", 2): ".const a@= 1\n",
    ("pc_definition", 0): "nop\n@* = $1000\n", ("pc_definition", 1): "*@= $1000\n",
    ("config_definition", 0): "nop\n@.define segment { name = a }\n", ("config_definition", 1): ".define@segment { name = a }\n",
    ("block", 0): "foo:@{ nop }\n", ("block", 1): "foo: { nop@}\n",
    ("segment", 0): "nop\n@.segment a { nop }\n", ("loop_", 0): "nop\n@.loop 3 { nop }\n",
    ("if_", 0): "nop\n@.if 1 { nop }\n", ("if_", 1): ".if 1 { nop }@else { brk }\n",
    ("align", 0): "nop\n@.align 16\n",
    ("as_", 0): ".import a@as b from \"x.asm\"\n", ("as_", 1): ".import a as@b from \"x.asm\"\n",
    ("import", 0): "=arg_list.0", ("import", 1): "nop\n@.import a from \"x.asm\"\n",
    ("import", 2): ".import@* from \"x.asm\"\n", ("import", 3): ".import a@from \"x.asm\"\n",
    ("text", 0): "nop\n@.text \"a\"\n", ("text", 1): ".text@ascii \"a\"\n",
    ("file", 0): "nop\n@.file \"a.bin\"\n",
    ("interpolated_string", 0): ".file@\"a.bin\"\n", ("interpolated_string", 2): "~.text \"a{@b}c\"\n",
    ("quoted_string", 0): ".import a from@\"x.asm\"\n",
    ("test", 0): "nop\n@.test t { nop }\n", ("assert", 0): "nop\n@.assert 1 == 1\n",
    ("trace", 0): "nop\n@.trace\n", ("trace", 1): ".trace@(a)\n", ("trace", 2): ".trace (a@)\n",
    ("eof", 0): "nop@",
    ("number", 1): "lda #!@$10\n", ("number", 2): "lda #$@10\n", ("number", 3): "lda #!@%01\n", ("number", 4): "lda #%@01\n",
    ("number", 6): "lda #!@10\n", ("number", 8): ".var v = !@true\n", ("number", 10): ".var v = !@false\n",
    ("expression_parens", 1): "lda #!@(1)\n", ("expression_parens", 2): "lda #(1@)\n",
    ("current_pc", 1): ".word !@*\n",
    ("arg_list", 0): ".byte@1, 2\n", ("arg_list", 1): ".byte 1@, 2\n", ("arg_list", 2): ".byte 1,@2\n",
    ("fn_call_impl", 1): "nop\n@m(1)\n", ("fn_call_impl", 2): "lda #!@defined(x)\n",
    ("fn_call_impl", 3): "lda #defined@(x)\n", ("fn_call_impl", 4): "lda #defined(x@)\n",
    ("expression_factor", 0): "lda #@1\n", ("expression_factor", 1): "=expression_factor.0", ("expression_factor", 2): "lda #!@-foo\n",
    ("expression_term", 0): "lda #1@* 2\n", ("expression", 0): "lda #1@+ 2\n",
    ("kvp", 0): ".define segment {@name = a }\n", ("kvp", 1): ".define segment { name@= a }\n", ("kvp", 2): ".define segment { name =@a }\n",
    ("config_map", 0): ".define segment@{ name = a }\n", ("config_map", 1): ".define segment { name = a@}\n",
}
SLOT_TRIVIA_WS = [" ", "\t", "  \t ", "/* c */", " /* a /* b */ c */ ", "/*" + NON_ASCII[1] + "*/", "/**/\t/* lda #1 */"]
SLOT_TRIVIA_MWS = SLOT_TRIVIA_WS + ["\n", "\r\n", " // c\n", "//\n", "\n\n  ", "/* a\n b */", " // " + NON_ASCII[0] + "\r\n\t"]


def wrapper_slots(tables_v):
    """[(fn, k, 'ws'|'mws')] of the translated wrapper table"""
    import re
    out = []
    for m in re.finditer(r"Definition W_(\w+) : list wrapper := \[(.*?)\]\.", open(tables_v).read()):
        for k, w in enumerate(x.strip() for x in m.group(2).split(";")):
            if w in ("W_ws", "W_mws"):
                out.append((m.group(1), k, w[2:]))
    return out


def slot_cases(tables_v):
    """(problems, cases): cases = [(fn, k, kind, trivia, text, expect_diagnostics)] -- every sample trivia at every wrapper"""
    problems, cases = [], []
    slots = wrapper_slots(tables_v)
    known = set((f, k) for f, k, _ in slots)
    for key in SLOT_TEXTS:
        if key not in known:
            problems.append("SLOT_TEXTS has %s.%d, the translated wrapper table has no such ws/mws wrapper" % key)
    for f, k, kind in slots:
        t = SLOT_TEXTS.get((f, k))
        if t is None:
            problems.append("wrapper %s.%d (%s) of the translated table has no text in gen/progs.py SLOT_TEXTS" % (f, k, kind))
            continue
        if t.startswith("="):
            g, j = t[1:].split(".")
            if (g, int(j)) not in known or SLOT_TEXTS.get((g, int(j)), "=").startswith("="):
                problems.append("wrapper %s.%d is declared shadowed by %s, which has no text" % (f, k, t[1:]))
            continue
        diag = "diag" if t.startswith("!") else ("unkept" if t.startswith("~") else "")
        t = t[1:] if diag else t
        if t.count("@") != 1:
            problems.append("text of %s.%d does not mark exactly one place" % (f, k))
            continue
        for tr in (SLOT_TRIVIA_MWS if kind == "mws" else SLOT_TRIVIA_WS):
            cases.append((f, k, kind, tr, t.replace("@", tr), diag))
    return problems, cases


if __name__ == "__main__":
    import sys
    rng = random.Random(int(sys.argv[1]) if len(sys.argv) > 1 else 0)
    g = Gen(rng)
    items, files = g.program()
    print(render(items, rng, "min"))
    print("-----")
    print(render(items, rng, "normal"))

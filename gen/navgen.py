"""Generator of error-free single- and multi-file mos programs for C15/C16 with full knowledge of every identifier
occurrence, plus the byte-level ground truth "which definition's value does the build use".

Nothing here knows the assembler's scoping rules.  The generator only knows the LEXICAL structure it wrote (which
definition sits directly in which block, which block is inside which) and gives every definition a distinguishing
value ("tag"): constants get a unique literal, labels are followed by a `nop` whose address is the tag (read from the
build's source map), strings get a unique text, macro parameters get unique literal arguments.  Every use is a
statement on its own line that emits the value (`.word p`, `lda p`, `.text "{p}"`); the bytes the real build produced
for that line say which definition was used.  Identifiers before the last one of a dotted path are decided by lexical
containment of the definition the bytes name.
"""
import re

NAMES = ["foo", "bar", "baz", "kk", "vv", "ww"]
MNEMONICS = set("adc and asl bcc bcs beq bit bmi bne bpl brk bvc bvs clc cld cli clv cmp cpx cpy dec dex dey eor inc inx iny jmp jsr "
                "lda ldx ldy lsr nop ora pha php pla plp rol ror rti rts sbc sec sed sei sta stx sty tax tay tsx txa txs tya".split())


class Scope:
    def __init__(self, kind, parent, file, label=None):
        self.kind, self.parent, self.file, self.label = kind, parent, file, label   # kind: file|label|anon|macro
        self.defs = {}          # name -> Def (directly inside this block)
        self.dead_names = set() # names defined only in untaken branches of this block
        self.children = []      # label / anon scopes directly inside
        if parent is not None:
            parent.children.append(self)

    def ancestors(self):        # self first
        s = self
        while s is not None:
            yield s
            s = s.parent


class Def:
    def __init__(self, name, kind, scope, file, line, col):
        self.name, self.kind, self.scope, self.file, self.line, self.col = name, kind, scope, file, line, col
        self.tags = set()       # values that identify this definition in the output
        self.tagline = None     # (file, line) of the nop whose address is the tag (labels)
        self.block = None       # Scope opened by a label with a block
        self.assembled = True
        self.idx = None

    def site(self):
        return (self.file, self.line, self.col, self.col + len(self.name))

    def __repr__(self):
        return "%s@%s:%d:%d" % (self.name, self.file, self.line, self.col)


class Occ:
    def __init__(self, file, line, col, text, role, **kw):
        self.file, self.line, self.col, self.text, self.role = file, line, col, text, role
        self.path = kw.get("path")          # the whole dotted path (list of str) this identifier belongs to
        self.index = kw.get("index", 0)     # position in the path
        self.stmt = kw.get("stmt")          # Use statement
        self.d = kw.get("d")                # the definition, for definition sites / structurally known ones
        self.assembled = kw.get("assembled", True)
        self.truth = None                   # Def decided by the bytes / lexical containment; "none" = nothing to point at
        self.note = kw.get("note")

    def key(self):
        return (self.file, self.line, self.col, self.col + len(self.text))

    def __repr__(self):
        return "%s:%d:%d %s[%s]" % (self.file, self.line, self.col, self.text, self.role)


class Use:
    """one statement that emits the value of `path`"""
    def __init__(self, file, line, form, path, scope, assembled):
        self.file, self.line, self.form, self.path, self.scope, self.assembled = file, line, form, path, scope, assembled
        self.values = []        # filled from the build
        self.in_macro = None
        self.target_hint = None


class Project:
    def __init__(self):
        self.lines = {}         # file -> list of str
        self.occs = []
        self.defs = []
        self.uses = []
        self.roots = {}         # file -> Scope
        self.macros = []        # (Def, params [Def], body scope, invocations)
        self.features = set()
        self.aliases = []       # (alias name, target Def or file root Scope)
        self.used_names = set()
        self.counter = 0
        self.explicit_segment = False
        self.settled = False

    def files(self):
        return {f: "\n".join(ls) + "\n" for f, ls in self.lines.items()}

    def fresh_tag(self):
        self.counter += 1
        return 0x7000 + self.counter * 3

    def fresh_name(self, rng, prefix="u"):
        while True:
            n = prefix + "".join(rng.choice("abcdefghjkmnpqrstxyz") for _ in range(3))
            # a macro whose name starts with a mnemonic cannot be invoked (`rtsg()` parses as `rts g()`): not a valid name
            if n[:3] in MNEMONICS:
                continue
            if n not in self.used_names and n not in NAMES:
                self.used_names.add(n)
                return n


class Gen:
    def __init__(self, rng, multi=None, size=None):
        self.rng = rng
        self.p = Project()
        self.multi = rng.random() < 0.5 if multi is None else multi
        self.size = size or rng.choice([6, 10, 14, 18])
        self.pending_uses = []      # (file, line slot index, scope, assembled, macro ctx)
        self.macros = []
        self.unique_root = []       # globally unique root-level defs of main.asm (usable from anywhere in main)

    # ----------------------------------------------------------------- text
    def emit(self, file, text):
        self.p.lines.setdefault(file, []).append(text)
        return len(self.p.lines[file]) - 1

    def add_def(self, name, kind, scope, file, line, col, assembled=True):
        d = Def(name, kind, scope, file, line, col)
        d.assembled = assembled
        d.idx = len(self.p.defs)
        self.p.defs.append(d)
        if kind != "param":
            scope.defs[name] = d
        self.p.used_names.add(name)
        self.p.occs.append(Occ(file, line, col, name, "def", d=d, assembled=assembled))
        return d

    # ----------------------------------------------------------------- blocks
    def pick_name(self, scope, unique=False):
        rng = self.rng
        if unique or rng.random() < 0.25:
            return self.p.fresh_name(rng)
        cands = [n for n in NAMES if n not in scope.defs and n not in scope.dead_names]
        if not cands:
            return self.p.fresh_name(rng)
        return rng.choice(cands)

    def gen_block(self, file, scope, depth, budget, assembled=True, in_macro=None, unique_only=False):
        rng = self.rng
        n = rng.randrange(2, 2 + max(1, budget))
        for _ in range(n):
            r = rng.random()
            if r < 0.22:
                name = self.pick_name(scope, unique_only)
                ln = self.emit(file, "%s: nop" % name)
                d = self.add_def(name, "label", scope, file, ln, 0, assembled)
                d.tagline = (file, ln)
            elif r < 0.36:
                name = self.pick_name(scope, unique_only)
                kind = rng.choice(["const", "const", "var"])
                tag = self.p.fresh_tag()
                ln = self.emit(file, ".%s %s = $%04x" % (kind, name, tag))
                d = self.add_def(name, kind, scope, file, ln, len(kind) + 2, assembled)
                d.tags.add(tag)
                if kind == "var" and assembled and rng.random() < 0.6:
                    # assigned a second time: still the same symbol
                    ln = self.emit(file, ".var %s = %s + 1" % (name, name))
                    d.tags.add(tag + 1)
                    self.p.occs.append(Occ(file, ln, 5, name, "redef", d=d))
                    self.p.occs.append(Occ(file, ln, 5 + len(name) + 3, name, "reuse", d=d))
                    self.p.features.add("var_reassigned")
            elif r < 0.42 and not in_macro:
                name = self.p.fresh_name(rng, "s")
                s = "".join(rng.choice("ABCDEFGHJKLMNPQRSTUVWXYZ") for _ in range(2)) + str(self.p.counter % 10)
                self.p.counter += 1
                ln = self.emit(file, '.const %s = "%s"' % (name, s))
                d = self.add_def(name, "sconst", scope, file, ln, 7, assembled)
                d.tags.add(s)
                self.p.features.add("string")
            elif r < 0.60 and depth < 4 and budget > 0 and not unique_only:
                if rng.random() < 0.7:
                    name = self.pick_name(scope)
                    ln = self.emit(file, "%s: {" % name)
                    d = self.add_def(name, "scope", scope, file, ln, 0, assembled)
                    sub = Scope("label", scope, file, d)
                    d.block = sub
                    ln2 = self.emit(file, "nop")
                    d.tagline = (file, ln2)
                else:
                    self.emit(file, "{")
                    sub = Scope("anon", scope, file)
                    self.emit(file, "nop")
                self.p.features.add("nested")
                brace = (file, len(self.p.lines[file]) - 2, len(self.p.lines[file][-2]) - 1)
                if self.macros and file == "main.asm" and assembled and not in_macro and rng.random() < 0.2:
                    ctx = rng.choice(self.macros)
                    mname = ctx["def"].name
                    if mname not in sub.defs:
                        ln3 = self.emit(file, "%s: nop" % mname)
                        dl = self.add_def(mname, "label", sub, file, ln3, 0, assembled)
                        dl.tagline = (file, ln3)
                        self.gen_invocation(file, sub, ctx)
                        self.p.features.add("macro_name_shadowed_by_label")
                self.gen_block(file, sub, depth + 1, budget - 1, assembled, in_macro)
                if rng.random() < 0.35 and assembled and not in_macro:
                    ln = self.emit(file, "jmp -")
                    self.p.occs.append(Occ(file, ln, 4, "-", "anon_label", note=brace))
                    self.p.occs.append(Occ(brace[0], brace[1], brace[2], "{", "brace", note=brace))
                    self.p.features.add("anon_label")
                self.emit(file, "}")
            elif r < 0.67 and not in_macro and not unique_only and assembled and depth < 3:
                taken_first = rng.random() < 0.5
                self.emit(file, ".if %d {" % (1 if taken_first else 0))
                self.gen_branch(file, scope, depth, taken_first)
                self.emit(file, "} else {")
                self.gen_branch(file, scope, depth, not taken_first)
                self.emit(file, "}")
                self.p.features.add("untaken_if")
            elif r < 0.72 and not in_macro and assembled and not unique_only and file == "main.asm" and self.macros:
                self.gen_invocation(file, scope, rng.choice(self.macros))
            else:
                ln = self.emit(file, None)  # a use statement, filled in once all definitions exist
                self.pending_uses.append((file, ln, scope, assembled, in_macro, unique_only))
        # at least one use per block
        ln = self.emit(file, None)
        self.pending_uses.append((file, ln, scope, assembled, in_macro, unique_only))

    def gen_branch(self, file, scope, depth, taken):
        if taken:
            self.gen_block(file, scope, depth + 1, 1, True, None)
        else:
            # not assembled by the build: only globally unique names, so that no scoping rule is needed to know
            # what an occurrence means
            for _ in range(self.rng.randrange(1, 3)):
                if self.rng.random() < 0.4:
                    pool = [n for n in NAMES if n not in scope.defs and n not in scope.dead_names]
                    if pool and self.rng.random() < 0.4:
                        name = self.rng.choice(pool)     # may shadow an outer definition -- in the analysed run only
                        scope.dead_names.add(name)
                        self.p.features.add("untaken_shadowing_definition")
                    else:
                        name = self.p.fresh_name(self.rng)
                    ln = self.emit(file, "%s: nop" % name)
                    self.add_def(name, "label", Scope("dead", scope, file), file, ln, 0, assembled=False)
                else:
                    ln = self.emit(file, None)
                    self.pending_uses.append((file, ln, scope, False, None, True))

    # ----------------------------------------------------------------- macros
    def gen_macro(self, file, root, invoked=True):
        rng = self.rng
        name = self.p.fresh_name(rng, "m")
        nparams = rng.randrange(0, 3)
        params = [self.p.fresh_name(rng, "p") if rng.random() < 0.6 else rng.choice(NAMES) + "p" for _ in range(nparams)]
        params = list(dict.fromkeys(params))
        head = ".macro %s(%s) {" % (name, ", ".join(params))
        ln = self.emit(file, head)
        md = self.add_def(name, "macro", root, file, ln, 7)
        body = Scope("macro", root, file)
        pdefs = []
        col = 7 + len(name) + 1
        for p_ in params:
            pd = self.add_def(p_, "param", body, file, ln, col, assembled=invoked)
            body.defs[p_] = pd
            pdefs.append(pd)
            col += len(p_) + 2
        ctx = {"def": md, "params": pdefs, "body": body, "invoked": invoked}
        # body: parameter uses, a local label and its use, a global use
        for pd in pdefs:
            ln = self.emit(file, None)
            self.pending_uses.append((file, ln, body, invoked, ctx, ("param", pd)))
        if rng.random() < 0.7:
            lname = self.p.fresh_name(rng, "q")
            ln = self.emit(file, "%s: nop" % lname)
            ld = self.add_def(lname, "label", body, file, ln, 0, assembled=invoked)
            ld.tagline = (file, ln)
            ln = self.emit(file, None)
            self.pending_uses.append((file, ln, body, invoked, ctx, ("local", ld)))
        for _ in range(rng.randrange(0, 2)):
            ln = self.emit(file, None)
            self.pending_uses.append((file, ln, body, invoked, ctx, True))
        self.emit(file, "}")
        self.p.macros.append(ctx)
        ctx["invocations"] = []
        self.p.features.add("macro" if invoked else "uninvoked_macro")
        return ctx

    def gen_invocation(self, file, scope, ctx):
        """`m(args)`: literal unique tags, at most one symbol argument per parameter over all invocations"""
        rng = self.rng
        args = []
        for pd in ctx["params"]:
            if rng.random() < 0.4 and pd.tags and not pd.__dict__.get("has_name_arg") and self.unique_root:
                t = rng.choice(self.unique_root)
                if t.kind in ("label", "const", "var"):
                    args.append(("name", t))
                    pd.has_name_arg = True
                    continue
            tag = self.p.fresh_tag()
            pd.tags.add(tag)
            args.append(("lit", tag))
        text = ctx["def"].name + "("
        ln = len(self.p.lines[file])
        self.p.occs.append(Occ(file, ln, 0, ctx["def"].name, "invoke", d=ctx["def"]))
        col = len(text)
        parts = []
        for kind, v in args:
            if kind == "lit":
                s = "$%04x" % v
            else:
                s = v.name
                o = Occ(file, ln, col, s, "arg", d=v, path=[s], index=0)
                self.p.occs.append(o)
            parts.append(s)
            col += len(s) + 2
        self.emit(file, text + ", ".join(parts) + ")")
        ctx["invocations"].append((file, ln, args))

    # ----------------------------------------------------------------- uses
    def paths_to(self, scope, target, exact_only=False):
        """path forms that resolve (at least) to `target` from a use in `scope`, by lexical structure"""
        forms = []
        ts = target.scope
        anc = list(scope.ancestors())
        if ts in anc and not exact_only:
            forms.append(("plain", [target.name]))
        # dotted, going down from an ancestor-or-self through label blocks
        chain = []
        s = ts
        while s is not None and s.kind == "label" and s not in anc:
            chain.append(s.label.name)
            s = s.parent
        if s is not None and s in anc and chain:
            forms.append(("dotted", list(reversed(chain)) + [target.name]))
            # the same through `super`, exact: only when the start is the use's own scope
            k = anc.index(s)
            if all(a.kind in ("label", "anon") for a in anc[:k]) and k >= 1:
                forms.append(("super_dotted", ["super"] * k + list(reversed(chain)) + [target.name]))
        if ts in anc:
            k = anc.index(ts)
            if k >= 1 and all(a.kind in ("label", "anon") for a in anc[:k]):
                forms.append(("super", ["super"] * k + [target.name]))
        # a.super.b.x : both label blocks directly inside the use's scope
        if ts.kind == "label" and ts.parent is scope:
            sibs = [c for c in scope.children if c.kind == "label" and c is not ts]
            if sibs:
                forms.append(("sibling_super", [self.rng.choice(sibs).label.name, "super", ts.label.name, target.name]))
        return forms

    def visible_targets(self, scope, file):
        """definitions for which some path form exists from `scope` (same file)"""
        out = []
        for d in self.p.defs:
            if d.file != file or d.kind in ("macro", "param") or not d.assembled or d.scope.kind in ("macro", "dead"):
                continue
            if self.paths_to(scope, d):
                out.append(d)
        return out

    def fill_use(self, file, ln, scope, assembled, ctx, special):
        rng = self.rng
        target, forms = None, None
        if isinstance(special, tuple) and special[0] == "own_super":
            target = special[1]
            forms = [("super", ["super", target.name])]
        elif isinstance(special, tuple):
            target = special[1]
            forms = [("plain", [target.name])]
        elif special is True or not assembled:
            cands = [d for d in self.unique_root if d.file == file]
            if not cands:
                return self.p.lines[file].__setitem__(ln, "nop")
            target = rng.choice(cands)
            forms = [("plain", [target.name])]
        else:
            cands = self.visible_targets(scope, file)
            if not cands:
                return self.p.lines[file].__setitem__(ln, "nop")
            # prefer shadowed names and deep targets
            shadowed = [d for d in cands if sum(1 for e in self.p.defs if e.name == d.name) > 1]
            target = rng.choice(shadowed if shadowed and rng.random() < 0.6 else cands)
            forms = self.paths_to(scope, target)
        nonplain = [f for f in forms if f[0] != "plain"]
        kind, path = rng.choice(nonplain) if nonplain and rng.random() < 0.6 else rng.choice(forms)
        self.p.features.add("path_" + kind)
        if target.kind == "sconst":
            form = "text"
            text = '.text "<{%s}>"' % ".".join(path)
            col = 9
            self.p.features.add("interpolation")
        elif target.kind == "scope" and rng.random() < 0.5:
            form = "word"
            text = ".word " + ".".join(path)
            col = 6
        else:
            form = rng.choice(["word", "word", "lda"])
            text = (".word " if form == "word" else "lda ") + ".".join(path)
            col = 6 if form == "word" else 4
        # `super` is recognised in any case (SUPER.x, Super.x); other identifiers are case-sensitive
        shown = [rng.choice(["SUPER", "Super", "sUPER"]) if (seg == "super" and rng.random() < 0.3) else seg for seg in path]
        text = text.replace(".".join(path), ".".join(shown))
        self.p.lines[file][ln] = text
        u = Use(file, ln, form, path, scope, assembled)
        u.shown = shown
        u.in_macro = ctx
        u.target_hint = target
        self.p.uses.append(u)
        for i, seg in enumerate(path):
            role = "use" if i == len(path) - 1 else ("superseg" if seg == "super" else "seg")
            if seg == "super" and i == len(path) - 1:
                role = "superseg"
            o = Occ(file, ln, col, shown[i], role, path=path, index=i, stmt=u, assembled=assembled)
            if isinstance(special, tuple) and special[0] == "param" and not ctx["invoked"]:
                o.role = "param_uninvoked"
            self.p.occs.append(o)
            col += len(seg) + 1

    # ----------------------------------------------------------------- imports
    def gen_import_file(self, fname):
        root = Scope("file", None, fname)
        self.p.roots[fname] = root
        self.gen_block(fname, root, 1, 2, True, None)
        if self.rng.random() < 0.5:
            nm = self.p.fresh_name(self.rng, "d") + "_" + self.p.fresh_name(self.rng, "s")
            self.p.used_names.add(nm)
            ln = self.emit(fname, "%s: nop" % nm)
            dl = self.add_def(nm, "label", root, fname, ln, 0)
            dl.tagline = (fname, ln)
        # a label block that uses the file's own top-level names from inside (also from a nested block and through
        # `super`): when the block is imported by name, these lookups must still go through THIS file's scope
        consts = [d for d in root.defs.values() if d.kind in ("const", "var", "label")]
        if consts and self.rng.random() < 0.6:
            name = self.pick_name(root)
            ln = self.emit(fname, "%s: {" % name)
            bd = self.add_def(name, "scope", root, fname, ln, 0)
            sub = Scope("label", root, fname, bd)
            bd.block = sub
            ln2 = self.emit(fname, "nop")
            bd.tagline = (fname, ln2)
            inner = self.p.fresh_name(self.rng, "i")
            ln3 = self.emit(fname, "%s: nop" % inner)
            di = self.add_def(inner, "label", sub, fname, ln3, 0)
            di.tagline = (fname, ln3)
            for where in ("here", "nested", "super"):
                t = self.rng.choice(consts)
                if where == "nested":
                    self.emit(fname, "{")
                    sc = Scope("anon", sub, fname)
                    self.emit(fname, "nop")
                else:
                    sc = sub
                ln4 = self.emit(fname, None)
                self.pending_uses.append((fname, ln4, sc, True, None, ("own" if where != "super" else "own_super", t)))
                if where == "nested":
                    self.emit(fname, "}")
            self.emit(fname, "}")
            root.own_block = bd
            self.p.features.add("imported_block_uses_own_file")
        # a use of a top-level name on the last line: main.asm gets a use of the same name at the same line and column
        tops = [d for d in root.defs.values() if d.kind in ("label", "const", "var", "scope")]
        root.twin = None
        if tops and self.rng.random() < 0.7:
            d = self.rng.choice(tops)
            ln = self.emit(fname, ".word " + d.name)
            u = Use(fname, ln, "word", [d.name], root, True)
            u.shown = [d.name]
            u.target_hint = d
            self.p.uses.append(u)
            self.p.occs.append(Occ(fname, ln, 6, d.name, "use", path=[d.name], index=0, stmt=u))
            root.twin = (d, ln)
        return root

    # ----------------------------------------------------------------- whole project
    def generate(self):
        rng, p = self.rng, self.p
        main = "main.asm"
        root = Scope("file", None, main)
        p.roots[main] = root
        if rng.random() < 0.4:
            self.emit(main, '.define segment { name = "a" start = $2000 }')
            p.explicit_segment = True
        # globally unique root definitions first or last (forward references)
        uniq_first = rng.random() < 0.5
        # a forward reference from the first to the last statement: the last pass then starts with the complete symbol
        # table, so the table at the end of the build is the table every lookup of that pass has seen ("settled")
        p.settled = rng.random() < 0.7
        settle_slot = self.emit(main, None) if p.settled else None

        def uniq_defs():
            for _ in range(rng.randrange(1, 4)):
                name = p.fresh_name(rng, "g")
                if rng.random() < 0.5:
                    ln = self.emit(main, "%s: nop" % name)
                    d = self.add_def(name, "label", root, main, ln, 0)
                    d.tagline = (main, ln)
                else:
                    tag = p.fresh_tag()
                    ln = self.emit(main, ".const %s = $%04x" % (name, tag))
                    d = self.add_def(name, "const", root, main, ln, 7)
                    d.tags.add(tag)
                self.unique_root.append(d)
        if uniq_first:
            uniq_defs()
        imports = []
        if self.multi:
            nfiles = rng.randrange(1, 3)
            for i in range(nfiles):
                fname = "lib%d.asm" % i
                froot = self.gen_import_file(fname)
                imports.append((fname, froot))
        macros = self.macros
        for _ in range(rng.choice([0, 1, 1, 2])):
            macros.append(self.gen_macro(main, root, True))
        if rng.random() < 0.3:
            self.gen_macro(main, root, False)
        # import statements (root level of main)
        for fname, froot in imports:
            style = rng.choice(["star", "specific", "specific_as", "specific_as", "star_as"])
            top = [d for d in froot.defs.values()]
            if style in ("specific", "specific_as") and top:
                picks = rng.sample(top, min(len(top), rng.randrange(1, 3)))
                ob = getattr(froot, "own_block", None)
                if ob is not None and ob not in picks:
                    picks.append(ob)
                args, ln = [], len(p.lines.get(main, []))
                col = 8
                for d in picks:
                    if style == "specific_as" or d.name in root.defs or any(a[1] == d.name for a in args):
                        alias = self.pick_alias(d.name, root)
                        s = "%s as %s" % (d.name, alias)
                        p.occs.append(Occ(main, ln, col, d.name, "imp_name", d=d))
                        p.occs.append(Occ(main, ln, col + len(d.name) + 4, alias, "imp_alias", d=d))
                        args.append((s, alias, d))
                        p.features.add("import_as")
                    else:
                        s = d.name
                        p.occs.append(Occ(main, ln, col, d.name, "imp_name", d=d))
                        args.append((s, d.name, d))
                        p.features.add("import_specific")
                    col += len(s) + 2
                self.emit(main, '.import %s from "%s"' % (", ".join(a[0] for a in args), fname))
                for s, visible, d in args:
                    p.aliases.append((visible, d))
                    root.defs[visible] = d
            elif style == "star_as":
                self.import_namespace(main, root, fname, froot)
            else:
                clash = [d for d in top if d.name in root.defs]
                if clash:
                    self.import_namespace(main, root, fname, froot)
                else:
                    self.emit(main, '.import * from "%s"' % fname)
                    for d in top:
                        p.aliases.append((d.name, d))
                        root.defs[d.name] = d
                    p.features.add("import_star")
        for fname, froot in imports:
            tw = getattr(froot, "twin", None)
            if tw and root.defs.get(tw[0].name) is tw[0]:
                d, ll = tw
                cur = len(p.lines[main])
                if cur <= ll <= cur + 25:
                    for _ in range(ll - cur):
                        self.emit(main, "nop")
                    ln = self.emit(main, ".word " + d.name)
                    u = Use(main, ln, "word", [d.name], root, True)
                    u.shown = [d.name]
                    u.target_hint = d
                    p.uses.append(u)
                    p.occs.append(Occ(main, ln, 6, d.name, "use", path=[d.name], index=0, stmt=u))
                    p.features.add("same_range_in_two_files")
        self.import_use_slots = []
        for _ in range(len(p.aliases) and rng.randrange(1, 4)):
            ln = self.emit(main, None)
            self.import_use_slots.append(ln)
        self.gen_block(main, root, 0, max(3, self.size // 3))
        # invocations: at root and inside a nested scope
        for ctx in macros:
            for _ in range(rng.randrange(1, 3)):
                self.gen_invocation(main, root, ctx)
        if not uniq_first:
            uniq_defs()
        if rng.random() < 0.12 and self.unique_root:
            d = rng.choice(self.unique_root)
            ln = self.emit(main, ".if defined(%s) {" % d.name)
            p.occs.append(Occ(main, ln, len(".if defined("), d.name, "defined", d=d))
            self.emit(main, "nop")
            self.emit(main, "}")
            p.features.add("defined")
        # text that merely LOOKS like the names: a comment and a plain string
        some = [d.name for d in p.defs if d.kind not in ("param",)]
        if some and rng.random() < 0.8:
            a, b = rng.choice(some), rng.choice(some)
            self.emit(main, "// %s and %s.%s are mentioned here" % (a, b, a))
            self.emit(main, '.text "%s"' % a)
            p.features.add("comment_string")
        # an anonymous block of its own with a pool name: a name "in another scope"
        if rng.random() < 0.6:
            nm = rng.choice(NAMES)
            self.emit(main, "{")
            blk = Scope("anon", root, main)
            self.emit(main, "nop")
            ln = self.emit(main, "%s: nop" % nm)
            d = self.add_def(nm, "label", blk, main, ln, 0)
            d.tagline = (main, ln)
            ln = self.emit(main, None)
            self.pending_uses.append((main, ln, blk, True, None, ("local", d)))
            self.emit(main, "}")
        if p.settled:
            name = p.fresh_name(rng, "z")
            ln = self.emit(main, "%s: nop" % name)
            zd = self.add_def(name, "label", root, main, ln, 0)
            zd.tagline = (main, ln)
            self.pending_uses.append((main, settle_slot, root, True, None, ("settle", zd)))
        # the last thing in the program: a label block whose code uses outer (top-level) names and ends with a LARGE
        # untaken block that defines labels with those very names (and more): unassembled code that creates more symbols
        # than everything after it, at the end of the last scope -- whatever the analysed run does with the symbols of
        # that block (slots of removed symbols are handed out again), none of them may capture the uses above it
        outer = [d for d in root.defs.values() if d.file == main and d.kind in ("label", "const", "var") and d.assembled
                 and d.name not in ("",) and not d.name.startswith("z")]
        if outer and rng.random() < 0.45:
            tname = p.fresh_name(rng, "t")
            ln = self.emit(main, "%s: {" % tname)
            td = self.add_def(tname, "scope", root, main, ln, 0)
            tsc = Scope("label", root, main, td)
            td.block = tsc
            ln2 = self.emit(main, "nop")
            td.tagline = (main, ln2)
            picks = rng.sample(outer, min(len(outer), rng.randrange(1, 4)))
            for d in picks:
                ln3 = self.emit(main, None)
                self.pending_uses.append((main, ln3, tsc, True, None, ("local", d)))
            if rng.random() < 0.5:
                self.emit(main, ".if 0 {")
                closing = ["}"]
            else:
                self.emit(main, ".if 1 {")
                self.emit(main, "nop")
                self.emit(main, "} else {")
                closing = ["}"]
            dead_scope = Scope("dead", tsc, main)
            names = [d.name for d in picks] + [p.fresh_name(rng) for _ in range(rng.randrange(5, 9))]
            rng.shuffle(names)
            if rng.random() < 0.7:   # the clashing name first: it is the one that lands in the lowest free slot
                names.sort(key=lambda n: 0 if n in [d.name for d in picks] else 1)
            for nm in names:
                ln4 = self.emit(main, "%s: nop" % nm)
                self.add_def(nm, "label", dead_scope, main, ln4, 0, assembled=False)
                tsc.dead_names.add(nm)
            for c in closing:
                self.emit(main, c)
            self.emit(main, "}")
            p.features.add("large_untaken_block_at_end")
        # fill the use statements now that every definition exists
        for (file, ln, scope, assembled, ctx, special) in self.pending_uses:
            self.fill_use(file, ln, scope, assembled, ctx, special)
        for ln in self.import_use_slots:
            self.fill_import_use(main, ln, root)
        for f in p.lines:
            p.lines[f] = [l if l is not None else "nop" for l in p.lines[f]]
        return p

    def pick_alias(self, name, root):
        """the alias of `.import name as alias`: often a prefix / inner part of the imported name (`draw_sprite as draw`,
        `init_screen as init`) or `a` / `s` (letters of the keyword `as`), so that the alias text also occurs EARLIER in
        the argument than where the alias stands"""
        rng, p = self.rng, self.p
        cands = []
        r = rng.random()
        if r < 0.45:
            if "_" in name:
                cands += [name.split("_")[0], name.split("_")[-1]]
            cands += [name[:k] for k in (2, 3) if len(name) > k] + [name[1:3]]
            self.p.features.add("alias_inside_imported_name")
        elif r < 0.65:
            cands += ["a", "s"]
            self.p.features.add("alias_letter_of_as")
        rng.shuffle(cands)
        for c in cands:
            if c and c[0].isalpha() and c not in p.used_names and c not in NAMES and c not in root.defs and c[:3] not in MNEMONICS \
                    and c.lower() != "super":
                p.used_names.add(c)
                return c
        return p.fresh_name(rng, "a")

    def import_namespace(self, main, root, fname, froot):
        p = self.p
        ns = p.fresh_name(self.rng, "n")
        head = ".import * as "
        ln = self.emit(main, '%s%s from "%s"' % (head, ns, fname))
        nd = Def(ns, "ns", root, main, ln, len(head))
        p.occs.append(Occ(main, ln, len(head), ns, "ns_def", d=nd, note="namespace alias"))
        nd.block = froot
        root.defs[ns] = nd
        p.aliases.append((ns, froot))
        p.features.add("import_star_as")

    def fill_import_use(self, file, ln, root):
        rng, p = self.rng, self.p
        visible, tgt = rng.choice(p.aliases)
        if isinstance(tgt, Scope):     # namespace: ns.<top-level def> or deeper
            tops = [d for d in tgt.defs.values() if d.kind != "sconst"]
            if not tops:
                p.lines[file][ln] = "nop"
                return
            d = rng.choice(tops)
            path = [visible, d.name]
            if d.kind == "scope" and d.block.defs and rng.random() < 0.6:
                inner = [e for e in d.block.defs.values() if e.kind != "sconst"]
                if inner:
                    e = rng.choice(inner)
                    path, d = [visible, d.name, e.name], e
        else:
            d = tgt
            path = [visible]
            if d.kind == "scope" and d.block.defs and rng.random() < 0.6:
                inner = [e for e in d.block.defs.values() if e.kind != "sconst"]
                if inner:
                    e = rng.choice(inner)
                    path, d = [visible, e.name], e
            if d.kind == "sconst":
                p.lines[file][ln] = '.text "<{%s}>"' % ".".join(path)
                u = Use(file, ln, "text", path, root, True)
                u.target_hint = d
                p.uses.append(u)
                p.occs.append(Occ(file, ln, 9, path[0], "use", path=path, index=0, stmt=u))
                return
        p.lines[file][ln] = ".word " + ".".join(path)
        u = Use(file, ln, "word", path, root, True)
        u.target_hint = d
        p.uses.append(u)
        col = 6
        is_alias = not isinstance(tgt, Scope) and visible != tgt.name
        for i, seg in enumerate(path):
            p.occs.append(Occ(file, ln, col, seg, "use" if i == len(path) - 1 else "seg", path=path, index=i, stmt=u,
                              note="alias_use" if (is_alias and i == 0) else None))
            col += len(seg) + 1
        p.features.add("path_imported")


# --------------------------------------------------------------------------- ground truth from the build
def ground_truth(p, asm):
    """asm: mosprobe `asm` reply for p.files() (greedy off = what `mos build` does).  Fills Def.tags, Use.values, Occ.truth.
    Returns a list of problems that make the case unusable (generator's own limits), empty if fine."""
    problems = []
    if not asm.get("ok"):
        return ["build failed: %s" % json_short(asm.get("errors") or asm.get("parse_errors"))]
    segs = asm["segments"]

    def byte_at(pc):
        for s in segs:
            if s["start"] <= pc < s["end"]:
                off = (pc - s["start"]) * 2
                return int(s["data"][off:off + 2], 16)
        return None
    by_line = {}
    for e in asm["source_map"]:
        if "file" in e:
            by_line.setdefault((e["file"].split("/")[-1], e["line"]), []).append(e)
    for d in p.defs:
        if d.tagline and d.assembled:
            for e in by_line.get(d.tagline, []):
                d.tags.add(e["pc0"])
    # values emitted by the use statements
    for u in p.uses:
        if not u.assembled:
            continue
        for e in by_line.get((u.file, u.line), []):
            if u.form == "word":
                lo, hi = byte_at(e["pc0"]), byte_at(e["pc0"] + 1)
                u.values.append(None if lo is None or hi is None else lo + 256 * hi)
            elif u.form == "lda":
                lo, hi = byte_at(e["pc0"] + 1), byte_at(e["pc0"] + 2)
                u.values.append(None if lo is None or hi is None else lo + 256 * hi)
            else:
                bs = [byte_at(a) for a in range(e["pc0"], e["pc1"])]
                if None in bs:
                    u.values.append(None)
                else:
                    u.values.append(bytes(bs).decode("latin1")[1:-1])
    tag_owner = {}
    for d in p.defs:
        for t in d.tags:
            tag_owner.setdefault(t, []).append(d)
    for o in p.occs:
        if o.role == "def":
            o.truth = "unbound" if (o.d.kind == "param" and not o.d.assembled) else o.d
        elif o.role in ("invoke", "imp_name", "imp_alias", "defined", "arg", "redef", "reuse"):
            o.truth = o.d       # structural: unique names / named file
        elif o.role == "ns_def":
            o.truth = o.d          # the namespace is defined by its name in `.import * as ns`
        elif o.role in ("anon_label", "brace"):
            o.truth = "brace"
        elif o.role == "param_uninvoked":
            o.truth = "unbound"
    for u in p.uses:
        occs = [o for o in p.occs if o.stmt is u]
        last = [o for o in occs if o.index == len(u.path) - 1][0]
        if not u.assembled or (u.in_macro and not u.in_macro["invoked"]):
            # never assembled: a globally unique name means its only definition
            if last.role == "param_uninvoked":
                continue
            ds = [d for d in p.defs if d.name == last.text and d.kind != "param"]
            if len(ds) > 1:
                # definitions of that name in OTHER unassembled regions do not exist for this one
                ds = [d for d in ds if d.assembled]
            if len(ds) == 1:
                last.truth = ds[0]
            else:
                problems.append("unassembled use of a non-unique name %s" % last.text)
            continue
        if not u.values or None in u.values:
            problems.append("no bytes for the use at %s:%d" % (u.file, u.line))
            continue
        owners = set()
        for v in u.values:
            ds = tag_owner.get(v, [])
            if len(ds) == 1:
                owners.add(ds[0])
            elif len(ds) > 1:
                problems.append("ambiguous tag %r" % (v,))
        if u.in_macro and u.target_hint is not None and u.target_hint.kind == "param":
            # a parameter: decided by the literal arguments; symbol arguments show up as foreign values
            pd = u.target_hint
            if any(v in pd.tags for v in u.values):
                last.truth = pd
                foreign = [v for v in u.values if v not in pd.tags]
                for (f, ln, args) in u.in_macro["invocations"]:
                    for (kind, a), pdef in zip(args, u.in_macro["params"]):
                        if kind == "name" and pdef is pd:
                            ao = [o for o in p.occs if o.role == "arg" and o.file == f and o.line == ln and o.d is a]
                            own = [d for v in foreign for d in tag_owner.get(v, [])]
                            if len(set(own)) == 1 and ao:
                                ao[0].truth = own[0]
            else:
                last.truth = list(owners)[0] if len(owners) == 1 else None
            continue
        if len(owners) != 1:
            if len(owners) > 1:
                last.truth = "ambiguous"      # one occurrence, several bindings within one build (macro expanded in different scopes)
            else:
                problems.append("value %r of %s:%d is no definition's tag" % (u.values, u.file, u.line))
            continue
        d = list(owners)[0]
        last.truth = d
        # the identifiers before the last one: lexical containment
        chain = resolve_chain(p, u, d)
        for o in occs:
            if o.index < len(u.path) - 1:
                o.truth = chain.get(o.index, None)
    for o in p.occs:
        if o.role == "arg" and o.truth is None:
            o.truth = None
    return problems


def all_scopes(p):
    out = []

    def rec(s):
        out.append(s)
        for c in s.children:
            rec(c)
    for r in p.roots.values():
        rec(r)
    for m in p.macros:
        rec(m["body"])
    return out


def resolve_chain(p, u, d):
    """what every identifier before the last one of u.path names, given that the bytes say the last one is definition d.
    Purely lexical: try every block of the project as the place where the first identifier is found, follow the path
    through the nesting (`x` = the label block named x directly inside, or what an import made visible under that
    name; `super` = the block around), keep the walks that end exactly at d.  An identifier is decided when all
    surviving walks agree.  Values: Def, or "none" for a block without a definition site (anonymous block, file,
    namespace alias)."""
    path = u.path
    walks = []
    # a path that starts with `super` is looked up exactly where the statement stands
    for b0 in ([u.scope] if path[0] == "super" else all_scopes(p)):
        cur, truths, ok = b0, [], True
        for seg in path[:-1]:
            if seg == "super":
                cur = cur.parent
                if cur is None:
                    ok = False
                    break
                if cur.kind == "label":
                    truths.append(cur.label)
                else:   # anonymous block or the top level of a file (also of an imported one: 92c8ba5): no definition site
                    truths.append("none")
            else:
                dd = cur.defs.get(seg)
                if dd is None or dd.block is None:
                    ok = False
                    break
                truths.append(dd)
                cur = dd.block
        if ok and cur.defs.get(path[-1]) is d:
            walks.append(truths)
    out = {}
    if walks:
        for i in range(len(path) - 1):
            vals = {id(w[i]) if not isinstance(w[i], str) else w[i] for w in walks}
            if len(vals) == 1 and walks[0][i] != "undecided":
                out[i] = walks[0][i]
    return out


def json_short(x):
    import json
    return json.dumps(x)[:300]


IDENT = re.compile(r"[A-Za-z_][A-Za-z_0-9]*")

.var a = 1 nop
nop .align 4
* = $1000 nop
.const b = 2 .byte 1

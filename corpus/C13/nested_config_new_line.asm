.define segment { name = "a" start = $2000 nested-key = { k = v } }
.define bank { name = "b" opts = {
 x = 1 } }

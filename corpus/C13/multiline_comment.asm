a: /* x
 y */ nop
/* first
   second
 third */
lda #1 /* p
q */

.if 1 { nop } else { asl }
.if 2 { nop }
else { asl }
.if 3 { nop } // c
else { asl }

verylonglabelname_exceeding_margin: nop
lb: /* c */ nop
foo: bar: nop
/* c */ lb2: nop
lb3:
/* c */ nop

.define segment { name = "a.b" }
nop

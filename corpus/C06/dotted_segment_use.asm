.segment "x.y" { nop }

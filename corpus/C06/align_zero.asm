nop
.align 0

beq l0
.byte 0
bcc l1
.byte 0,0
beq l2
.loop 122 { .byte 0 }
l2:
.byte 0,0,0
l1:
l0:

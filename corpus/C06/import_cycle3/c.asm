.import * from "main.asm"
lc: nop

.import * from "c.asm"
lb: nop

.import * from "b.asm"
nop

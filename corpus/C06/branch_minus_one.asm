bcc -1

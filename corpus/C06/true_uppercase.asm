.byte TRUE, False

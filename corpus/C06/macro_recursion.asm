.macro m() { m() }
m()

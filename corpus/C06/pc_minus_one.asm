* = -1
nop

BRK

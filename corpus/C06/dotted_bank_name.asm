.define bank { name = "q.r" }
nop

.byte defined(defined(x))

.import * from "main.asm"
nop

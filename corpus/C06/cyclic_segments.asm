.define segment { name = "a" start = segments.b.end }
.define segment { name = "b" start = segments.c.end }
.define segment { name = "c" start = segments.a.end + 2 }
.segment "a" { la: jmp la }
.segment "b" { .if segments.b.end > $1002 { nop }
lda segments.b.end }
.segment "c" { lda segments.a.end
lda segments.b.start
.if segments.a.end > $1002 { nop } }

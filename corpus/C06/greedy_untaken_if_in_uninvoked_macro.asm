.macro m() {
.if 0 { nop } else { lda #1 }
l: nop
}

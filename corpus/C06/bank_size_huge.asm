.define bank { name = "b" size = 1099511627776 fill = 0 }
.define segment { name = "a" start = $1000 bank = "b" }
nop

.if bar - foo == 0 { .byte 0 }
foo:
.if ((foo == $c001) && (bar == $c001)) || ((foo == $c000) && (bar == $c002)) { .byte 0 }
bar:

nop
.align -4

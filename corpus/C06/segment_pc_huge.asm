.define segment { name = "a" start = 1 pc = 9223372036854775807 }
nop

segments: { default: { start: nop } }

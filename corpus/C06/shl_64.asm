.byte 1 << 64

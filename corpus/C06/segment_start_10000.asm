.define segment { name = "a" start = $10000 }

.define segment { name = "a" start = $2000 pc = 0 }
* = $1000
.align $4000

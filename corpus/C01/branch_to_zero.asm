bne 0

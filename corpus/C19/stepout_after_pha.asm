.test "t" {
    ldx #0
    lda #7
    jsr sub
    inx
    brk
sub:
    pha
    nop
    pla
    rts
}

.test "t" {
    ldy #3
    jsr rec
    brk
rec:
    dey
    beq done
    jsr rec
done:
    inx
    rts
}

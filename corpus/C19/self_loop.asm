.test "t" {
    ldx #0
    inx
hang:
    jmp hang
}

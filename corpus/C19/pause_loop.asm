.test "t" {
    ldx #0
loop:
    inx
    inx
    inx
    jmp loop
}

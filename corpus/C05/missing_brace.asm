foo: {
 nop

.macro rtsg() {
nop
}
rtsg()
.const trueval = 2
.const asciitable = "q"
.byte trueval
.text asciitable

/* ═══ banner ═══ */
    lda #1
/* grüße — naïve */ ldx #2
finish: rts // —

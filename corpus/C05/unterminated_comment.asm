.const a = 1 /* never closed
nop
.text "{ foo}"
.const foo = 1

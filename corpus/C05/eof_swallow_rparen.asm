nop
)
lda #1
/* straße note */ .align 4
lda $10, /* c */ x
.text /* q */ ascii "a"

.test "rec" {
    ldx #3
    jsr f
    nop
    brk
f:  pha
    dex
    beq done
    jsr f
done:
    pla
    rts
}

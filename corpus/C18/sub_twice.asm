.test "sub" {
    lda #1
    jsr f
    lda #0
    jsr f
    brk
f:  .assert cpu.a == 1
    rts
}

.test "unknown_function" {
    lda #1
    .assert ramm($10) == 0 "typo in function name"
    brk
}
.test "wrong_arity" {
    lda #1
    .assert ram($10, 1) == 0
    brk
}
.test "string_operator" {
    nop
    .assert "abc" < "abd"
    brk
}
.test "interpolation" {
    .macro mm() { nop }
    nop
    .assert "{mm}" == "x"
    brk
}
.test "fine" {
    lda #1
    .assert ram($10) == 0
    brk
}
.test "mixed_operands" {
    lda #1
    .assert cpu.a + "x"
    brk
}
.test "mixed_operands_message" {
    ldx #2
    .assert "x" == cpu.x "number against string"
    brk
}

.test "last_byte_and_word" {
    lda #$34
    sta $fffe
    lda #$12
    sta $ffff
    .assert ram($ffff) == $12
    .assert ram16($fffe) == $1234 "the vector just stored"
    .assert ram16($fffd) == $3400
    .assert ram($10000) == ram(0)
    .assert ram(-1) == $12
    brk
}
.test "word_past_the_end" {
    nop
    .assert ram16($ffff) >= 0 "a word at $ffff leaves the memory"
    brk
}
.test "trace_past_the_end" {
    nop
    .trace (ram16($ffff), ram($ffff))
    .assert 0
    brk
}

.test "loop" {
    ldx #0
l:  inx
    .assert cpu.x < 2 "x too big"
    cpx #3
    bne l
    brk
}

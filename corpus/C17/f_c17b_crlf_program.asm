start:
  lda #1   // x



  sta $d020
  rts

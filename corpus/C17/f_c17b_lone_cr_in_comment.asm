lda #1 /* ab */
nop  
                    rts

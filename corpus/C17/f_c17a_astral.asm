lda /* 😀 */    #1
nop  
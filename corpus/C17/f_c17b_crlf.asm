nop

start:
//    
//漢 a b  c é
/* 😀😀 😀😀
字 🦀 */
                    sub:


                    .dword $ff,1 //😀 🦀



 
                    asl //init
                                                        /* 😀
🦀     */	cmp	#%1010
                    *=$1e00
data:
cmp #%1010
                    dey

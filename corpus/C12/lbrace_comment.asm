.if 1 // c
{
    nop
}
.loop 2 /* d */ { nop }
lb1: /* e */ { nop }
.define segment /* f */ { name = "a" start = $1000 }

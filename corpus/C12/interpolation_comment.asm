.const kc = 1
.text "a{/* c */ kc}b" // x
.assert 1 "v={  kc}"

lda foo lda bar
lda foo m(1)
nop lb1:
.byte 1 .byte 2
.const a = 1 .const b = 2
.text "a" .text "b"
.define segment { name = "a" start = $1000 }
foo: bar: nop
.macro m(x) { nop }

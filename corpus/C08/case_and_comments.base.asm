lda #$ff
.byte true,false
sta ($10),y

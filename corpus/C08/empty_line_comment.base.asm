nop
nop

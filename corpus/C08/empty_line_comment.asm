nop //
nop

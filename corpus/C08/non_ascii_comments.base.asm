lda #1
ldx #2
finish: rts

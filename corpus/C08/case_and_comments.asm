LdA /* a /* b */ c */ #$Ff // x
.BYTE	TRUE , False
STA ( $10 ) , Y

lda foo
nop
lda foo
sta foo
lda bar

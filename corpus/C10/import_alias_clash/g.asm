foo: nop

foo: nop
bar: nop
.import * from "f.asm"

.import foo, foo as bar from "g.asm"

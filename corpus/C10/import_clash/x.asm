a: nop
b: nop
c: nop

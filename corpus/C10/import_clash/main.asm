a: nop
b: nop
c: nop
.import * from "x.asm"

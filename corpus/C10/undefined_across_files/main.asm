.import * from "p.asm"
.import * from "q.asm"
.import * from "r.asm"
lda zed

lda zed
q_t: nop
sta zed

lda zed
r_t: nop
sta zed

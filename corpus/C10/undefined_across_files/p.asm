lda zed
p_t: nop
sta zed

.import * from "sub/main.asm"
lda #1

x: nop

{
c_l: nop
}
c_top: nop

{
a_l: nop
}
a_top: nop

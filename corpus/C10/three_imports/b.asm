{
b_l: nop
}
b_top: nop

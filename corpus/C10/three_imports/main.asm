.import * from "a.asm"
.import * from "b.asm"
.import * from "c.asm"
nop

.import * from "x.asm"
.import * from "y.asm"
.import * from "z.asm"
nop

// c02probe: mosprobe (harness/) plus hook H1: number of passes of codegen() and one extra pass after convergence (C02 / C07).
// mosprobe: line-protocol probe around mos-core's public API.
// One JSON request per stdin line, one JSON reply per stdout line.
// Panics inside mos-core are caught and reported as {"panic": "..."}.
use mos_core::codegen::verif::{verif_set_pass_observer, VerifPassAction, VerifPassInfo};
use mos_core::codegen::{codegen, CodegenContext, CodegenOptions, SymbolData, SymbolType};
use std::cell::RefCell;
use std::rc::Rc;
use mos_core::errors::Diagnostics;
use mos_core::formatting::{
    format, Alignment, BracePosition, Casing, FormattingOptions,
};
use mos_core::io::{to_listing, to_vice_symbols, BinaryWriter};
use mos_core::parser::code_map::CodeMap;
use mos_core::parser::source::{InMemoryParsingSource, ParsingSource};
use mos_core::parser::{parse, IdentifierPath, ParseTree};
use serde_json::{json, Map, Value};
use std::io::{BufRead, Write};
use std::panic::{catch_unwind, AssertUnwindSafe};
use std::path::Path;
use std::sync::{Arc, Mutex};

mod dump;

fn hex(b: &[u8]) -> String {
    let mut s = String::with_capacity(b.len() * 2);
    for x in b {
        s.push_str(&format!("{:02x}", x));
    }
    s
}

fn diag_json(d: &Diagnostics, cm: Option<&CodeMap>) -> Value {
    let mut out = vec![];
    for diag in d.iter() {
        let mut o = Map::new();
        o.insert("msg".into(), json!(diag.message));
        if let (Some(label), Some(cm)) = (diag.labels.first(), cm) {
            let span = label.file_id;
            let r = catch_unwind(AssertUnwindSafe(|| {
                let sl = cm.look_up_span(span);
                let file = sl.file.clone();
                let flo = file.span.low().as_usize();
                (
                    file.name().to_string(),
                    span.low().as_usize() - flo,
                    span.high().as_usize() - flo,
                    sl.begin.line,
                    sl.begin.column,
                    sl.end.line,
                    sl.end.column,
                    file.source().len(),
                )
            }));
            match r {
                Ok((f, lo, hi, l0, c0, l1, c1, flen)) => {
                    o.insert("file".into(), json!(f));
                    o.insert("lo".into(), json!(lo));
                    o.insert("hi".into(), json!(hi));
                    o.insert("line".into(), json!(l0));
                    o.insert("col".into(), json!(c0));
                    o.insert("eline".into(), json!(l1));
                    o.insert("ecol".into(), json!(c1));
                    o.insert("flen".into(), json!(flen));
                }
                Err(_) => {
                    o.insert("bad_span".into(), json!(true));
                    o.insert("raw_lo".into(), json!(span.low().as_usize()));
                    o.insert("raw_hi".into(), json!(span.high().as_usize()));
                }
            }
        }
        out.push(Value::Object(o));
    }
    Value::Array(out)
}

fn source_from(req: &Value) -> (Arc<Mutex<dyn ParsingSource>>, String) {
    let mut src = InMemoryParsingSource::new();
    if let Some(files) = req.get("files").and_then(|f| f.as_object()) {
        for (k, v) in files {
            src = src.add(k.as_str(), v.as_str().unwrap_or(""));
        }
    }
    let entry = req
        .get("entry")
        .and_then(|e| e.as_str())
        .unwrap_or("main.asm")
        .to_string();
    (src.into(), entry)
}

fn options_from(req: &Value) -> CodegenOptions {
    let mut o = CodegenOptions::default();
    if let Some(b) = req.get("greedy").and_then(|b| b.as_bool()) {
        o.enable_greedy_analysis = b;
    }
    if let Some(b) = req.get("move_macro").and_then(|b| b.as_bool()) {
        o.move_macro_source_map_to_invocation = b;
    }
    if let Some(t) = req.get("active_test").and_then(|b| b.as_str()) {
        o.active_test = Some(IdentifierPath::from(t));
    }
    if let Some(pc) = req.get("pc").and_then(|b| b.as_u64()) {
        o.pc = (pc as usize).into();
    }
    if let Some(c) = req.get("constants").and_then(|c| c.as_object()) {
        for (k, v) in c {
            o.predefined_constants
                .insert(k.clone(), v.as_i64().unwrap_or(0));
        }
    }
    o
}

fn ctx_json(ctx: &CodegenContext, req: &Value, out: &mut Map<String, Value>) {
    // segments, in definition order
    let mut segs = vec![];
    for (name, seg) in ctx.segments() {
        segs.push(json!({
            "name": name.to_string(),
            "start": seg.range().start,
            "end": seg.range().end,
            "pc": seg.pc().as_usize(),
            "target_offset": seg.target_offset(),
            "data": hex(seg.range_data()),
            "bank": seg.options().bank.as_ref().map(|b| b.to_string()),
            "write": seg.options().write,
            "initial_pc": seg.options().initial_pc.as_usize(),
            "target_address": seg.options().target_address.as_usize(),
        }));
    }
    out.insert("segments".into(), Value::Array(segs));
    let mut banks = vec![];
    for (name, b) in ctx.banks() {
        banks.push(json!({
            "name": name.to_string(),
            "size": b.size,
            "fill": b.fill,
            "create_segment": b.create_segment,
            "filename": b.filename,
        }));
    }
    out.insert("bank_options".into(), Value::Array(banks));
    // symbols, sorted by path
    let mut syms = vec![];
    for (path, (_nx, sym)) in ctx.symbols().all() {
        let ty = match sym.ty {
            SymbolType::Label => "label",
            SymbolType::TestCase => "test",
            SymbolType::MacroArgument => "macroarg",
            SymbolType::Constant => "const",
            SymbolType::Variable => "var",
        };
        let val = match &sym.data {
            SymbolData::Number(n) => json!(n),
            SymbolData::String(s) => json!(format!("s:{}", s)),
            SymbolData::Placeholder => json!("placeholder"),
            SymbolData::MacroDefinition(_) => json!("macro"),
        };
        syms.push((path.to_string(), ty, val));
    }
    syms.sort_by(|a, b| a.0.cmp(&b.0));
    out.insert(
        "symbols".into(),
        Value::Array(syms.into_iter().map(|(p, t, v)| json!([p, t, v])).collect()),
    );
    out.insert("vice".into(), json!(to_vice_symbols(ctx.symbols())));
    // source map in emission order
    let cm = &ctx.tree().code_map;
    let mut sm = vec![];
    for o in ctx.source_map().offsets() {
        let r = catch_unwind(AssertUnwindSafe(|| {
            let sl = cm.look_up_span(o.span);
            let flo = sl.file.span.low().as_usize();
            (
                sl.file.name().to_string(),
                o.span.low().as_usize() - flo,
                o.span.high().as_usize() - flo,
                sl.begin.line,
                sl.end.line,
            )
        }));
        if let Ok((f, lo, hi, l0, l1)) = r {
            sm.push(json!({"scope": o.scope.index(), "file": f, "lo": lo, "hi": hi, "line": l0, "eline": l1,
                           "pc0": o.pc.start, "pc1": o.pc.end}));
        } else {
            sm.push(json!({"bad_span": true}));
        }
    }
    out.insert("source_map".into(), Value::Array(sm));
    if req.get("merge").and_then(|b| b.as_bool()).unwrap_or(true) {
        match catch_unwind(AssertUnwindSafe(|| BinaryWriter.merge_segments(ctx))) {
            Ok(Ok(banks)) => {
                let v: Vec<Value> = banks
                    .iter()
                    .map(|b| {
                        json!({"name": b.options().name.to_string(), "start": b.range().start, "end": b.range().end,
                               "data": hex(b.data()), "filename": b.options().filename})
                    })
                    .collect();
                out.insert("banks".into(), Value::Array(v));
            }
            Ok(Err(e)) => {
                out.insert("merge_errors".into(), diag_json(&e, Some(cm)));
            }
            Err(p) => {
                out.insert("merge_panic".into(), json!(panic_msg(&p)));
            }
        }
    }
    if let Some(n) = req.get("listing").and_then(|n| n.as_u64()) {
        match catch_unwind(AssertUnwindSafe(|| to_listing(ctx, n as usize))) {
            Ok(Ok(l)) => {
                let mut m = Map::new();
                for (k, v) in l {
                    m.insert(k.to_string_lossy().to_string(), json!(v));
                }
                out.insert("listing".into(), Value::Object(m));
            }
            Ok(Err(e)) => {
                out.insert("listing_errors".into(), diag_json(&e, Some(cm)));
            }
            Err(p) => {
                out.insert("listing_panic".into(), json!(panic_msg(&p)));
            }
        }
    }
}

fn panic_msg(p: &Box<dyn std::any::Any + Send>) -> String {
    if let Some(s) = p.downcast_ref::<&str>() {
        s.to_string()
    } else if let Some(s) = p.downcast_ref::<String>() {
        s.clone()
    } else {
        "<non-string panic>".to_string()
    }
}

fn do_parse(req: &Value) -> (Option<Arc<ParseTree>>, Diagnostics) {
    let (src, entry) = source_from(req);
    parse(Path::new(&entry), src)
}

fn cmd_asm(req: &Value) -> Value {
    let mut out = Map::new();
    let (tree, perr) = do_parse(req);
    let cm = tree.as_ref().map(|t| t.code_map.clone());
    out.insert("parse_errors".into(), diag_json(&perr, cm.as_ref()));
    if let Some(tree) = &tree {
        if req.get("render").and_then(|b| b.as_bool()).unwrap_or(false) {
            out.insert("render".into(), json!(dump::render(tree)));
        }
        if req.get("ast").and_then(|b| b.as_bool()).unwrap_or(false) {
            out.insert("ast".into(), dump::tree_json(tree));
        }
    }
    if !perr.is_empty() && !req.get("force_codegen").and_then(|b| b.as_bool()).unwrap_or(false) {
        return Value::Object(out);
    }
    let tree = match tree {
        Some(t) => t,
        None => return Value::Object(out),
    };
    let opts = options_from(req);
    // hook H1: count the passes (and stop a run that needs more than `max_passes`)
    let max_passes = req.get("max_passes").and_then(|n| n.as_u64()).unwrap_or(200) as usize;
    let log: Rc<RefCell<Vec<Value>>> = Rc::new(RefCell::new(vec![]));
    let log2 = log.clone();
    verif_set_pass_observer(Some(Box::new(move |info: &VerifPassInfo| {
        let mut l = log2.borrow_mut();
        l.push(json!({"i": info.pass_idx, "nodes": info.node_count, "added": info.symbols_added, "nu": info.undefined, "ne": info.errors}));
        if l.len() > max_passes {
            VerifPassAction::Stop
        } else {
            VerifPassAction::Continue
        }
    })));
    let r = catch_unwind(AssertUnwindSafe(|| codegen(tree.clone(), opts)));
    verif_set_pass_observer(None);
    let (ctx, errs) = match r {
        Ok(x) => x,
        Err(p) => {
            out.insert("panic".into(), json!(panic_msg(&p)));
            return Value::Object(out);
        }
    };
    out.insert("passes".into(), json!(log.borrow().len()));
    out.insert("pass_log".into(), Value::Array(log.borrow().clone()));
    out.insert("errors".into(), diag_json(&errs, Some(&tree.code_map)));
    out.insert("ok".into(), json!(errs.is_empty()));
    if let Some(mut ctx) = ctx {
        ctx_json(&ctx, req, &mut out);
        if errs.is_empty() && req.get("extra_pass").and_then(|b| b.as_bool()).unwrap_or(false) {
            // C02 oracle (a): one more pass over the converged context must change neither a symbol nor a byte
            match catch_unwind(AssertUnwindSafe(|| ctx.verif_extra_pass())) {
                Ok(x) => {
                    let mut after = Map::new();
                    let req2 = json!({"merge": false});
                    ctx_json(&ctx, &req2, &mut after);
                    out.insert("extra_pass".into(), json!({"changed_symbols": x.changed_symbols, "changed_segments": x.changed_segments,
                        "errors": x.errors, "undefined": x.undefined,
                        "segments": after.get("segments"), "symbols": after.get("symbols")}));
                }
                Err(p) => {
                    out.insert("extra_pass_panic".into(), json!(panic_msg(&p)));
                }
            }
        }
    }
    Value::Object(out)
}

fn fmt_options(req: &Value) -> FormattingOptions {
    let mut o = FormattingOptions::default();
    if let Some(f) = req.get("fmt").and_then(|f| f.as_object()) {
        let casing = |s: &str| match s {
            "uppercase" => Casing::Uppercase,
            _ => Casing::Lowercase,
        };
        if let Some(v) = f.get("mnemonic_casing").and_then(|v| v.as_str()) {
            o.mnemonics.casing = casing(v);
        }
        if let Some(v) = f.get("register_casing").and_then(|v| v.as_str()) {
            o.mnemonics.register_casing = casing(v);
        }
        if let Some(v) = f.get("brace_position").and_then(|v| v.as_str()) {
            o.braces.position = match v {
                "new_line" => BracePosition::NewLine,
                _ => BracePosition::SameLine,
            };
        }
        if let Some(v) = f.get("indent").and_then(|v| v.as_u64()) {
            o.whitespace.indent = v as usize;
        }
        if let Some(v) = f.get("label_margin").and_then(|v| v.as_u64()) {
            o.whitespace.label_margin = v as usize;
        }
        if let Some(v) = f.get("label_alignment").and_then(|v| v.as_str()) {
            o.whitespace.label_alignment = match v {
                "left" => Alignment::Left,
                _ => Alignment::Right,
            };
        }
        if let Some(v) = f.get("code_margin").and_then(|v| v.as_u64()) {
            o.whitespace.code_margin = v as usize;
        }
    }
    o
}

fn cmd_format(req: &Value) -> Value {
    let mut out = Map::new();
    let (tree, perr) = do_parse(req);
    let cm = tree.as_ref().map(|t| t.code_map.clone());
    out.insert("parse_errors".into(), diag_json(&perr, cm.as_ref()));
    if let (Some(tree), true) = (tree, perr.is_empty()) {
        let opts = fmt_options(req);
        let mut m = Map::new();
        let mut names: Vec<String> = tree.files.keys().map(|p| p.to_string_lossy().to_string()).collect();
        names.sort();
        for n in names {
            let r = catch_unwind(AssertUnwindSafe(|| format(n.as_str(), tree.clone(), opts)));
            match r {
                Ok(s) => {
                    m.insert(n, json!(s));
                }
                Err(p) => {
                    m.insert(n, json!({"panic": panic_msg(&p)}));
                }
            }
        }
        out.insert("formatted".into(), Value::Object(m));
    }
    Value::Object(out)
}

fn cmd_parse(req: &Value) -> Value {
    let mut out = Map::new();
    let (tree, perr) = do_parse(req);
    let cm = tree.as_ref().map(|t| t.code_map.clone());
    out.insert("parse_errors".into(), diag_json(&perr, cm.as_ref()));
    if let Some(tree) = &tree {
        out.insert("render".into(), json!(dump::render(tree)));
        if req.get("ast").and_then(|b| b.as_bool()).unwrap_or(false) {
            out.insert("ast".into(), dump::tree_json(tree));
        }
        let mut names: Vec<String> = tree.files.keys().map(|p| p.to_string_lossy().to_string()).collect();
        names.sort();
        out.insert("files".into(), json!(names));
    }
    Value::Object(out)
}

fn cmd_expr(req: &Value) -> Value {
    let src = req.get("src").and_then(|s| s.as_str()).unwrap_or("");
    match mos_core::parser::parse_expression(src) {
        Ok(e) => json!({"ok": true, "ast": dump::expr(&e), "lo": e.span.low().as_usize() - 1, "hi": e.span.high().as_usize() - 1}),
        Err(_) => json!({"ok": false}),
    }
}

fn main() {
    std::panic::set_hook(Box::new(|_| {}));
    let stdin = std::io::stdin();
    let stdout = std::io::stdout();
    for line in stdin.lock().lines() {
        let line = match line {
            Ok(l) => l,
            Err(_) => break,
        };
        if line.trim().is_empty() {
            continue;
        }
        let req: Value = match serde_json::from_str(&line) {
            Ok(v) => v,
            Err(e) => {
                let mut o = stdout.lock();
                writeln!(o, "{}", json!({"bad_request": e.to_string()})).unwrap();
                o.flush().unwrap();
                continue;
            }
        };
        let cmd = req.get("cmd").and_then(|c| c.as_str()).unwrap_or("asm").to_string();
        let r = catch_unwind(AssertUnwindSafe(|| match cmd.as_str() {
            "asm" => cmd_asm(&req),
            "format" => cmd_format(&req),
            "parse" => cmd_parse(&req),
            "expr" => cmd_expr(&req),
            _ => json!({"bad_request": "unknown cmd"}),
        }));
        let reply = match r {
            Ok(v) => v,
            Err(p) => json!({"panic": panic_msg(&p)}),
        };
        let mut o = stdout.lock();
        writeln!(o, "{}", reply).unwrap();
        o.flush().unwrap();
    }
}

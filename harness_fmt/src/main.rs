// fmtprobe: line-protocol probe around mos-core's formatter, including the cfg(mos_verif) hooks
// `verif_chunks` (chunk list before line assembly) and `verif_join_chunks` (line assembly of any chunk list).
// One JSON request per stdin line, one JSON reply per stdout line.  Panics are caught and reported.
use mos_core::formatting::{
    format, verif_chunks, verif_join_chunks, Alignment, BracePosition, Casing, FormattingOptions,
};
use mos_core::parser::parse;
use mos_core::parser::source::{InMemoryParsingSource, ParsingSource};
use serde_json::{json, Map, Value};
use std::io::{BufRead, Write};
use std::panic::{catch_unwind, AssertUnwindSafe};
use std::path::Path;
use std::sync::{Arc, Mutex};

#[allow(dead_code)]
mod dump;

fn panic_msg(p: &Box<dyn std::any::Any + Send>) -> String {
    if let Some(s) = p.downcast_ref::<&str>() {
        s.to_string()
    } else if let Some(s) = p.downcast_ref::<String>() {
        s.clone()
    } else {
        "<non-string panic>".to_string()
    }
}

fn fmt_options(req: &Value) -> FormattingOptions {
    let mut o = FormattingOptions::default();
    if let Some(f) = req.get("fmt").and_then(|f| f.as_object()) {
        let casing = |s: &str| match s {
            "uppercase" => Casing::Uppercase,
            _ => Casing::Lowercase,
        };
        if let Some(v) = f.get("mnemonic_casing").and_then(|v| v.as_str()) {
            o.mnemonics.casing = casing(v);
        }
        if let Some(v) = f.get("register_casing").and_then(|v| v.as_str()) {
            o.mnemonics.register_casing = casing(v);
        }
        if let Some(v) = f.get("brace_position").and_then(|v| v.as_str()) {
            o.braces.position = match v {
                "new_line" => BracePosition::NewLine,
                _ => BracePosition::SameLine,
            };
        }
        if let Some(v) = f.get("indent").and_then(|v| v.as_u64()) {
            o.whitespace.indent = v as usize;
        }
        if let Some(v) = f.get("label_margin").and_then(|v| v.as_u64()) {
            o.whitespace.label_margin = v as usize;
        }
        if let Some(v) = f.get("label_alignment").and_then(|v| v.as_str()) {
            o.whitespace.label_alignment = match v {
                "left" => Alignment::Left,
                _ => Alignment::Right,
            };
        }
        if let Some(v) = f.get("code_margin").and_then(|v| v.as_u64()) {
            o.whitespace.code_margin = v as usize;
        }
    }
    o
}

fn defaults() -> Value {
    let o = FormattingOptions::default();
    json!({
        "mnemonic_casing": if o.mnemonics.casing == Casing::Uppercase { "uppercase" } else { "lowercase" },
        "register_casing": if o.mnemonics.register_casing == Casing::Uppercase { "uppercase" } else { "lowercase" },
        "brace_position": if o.braces.position == BracePosition::NewLine { "new_line" } else { "same_line" },
        "indent": o.whitespace.indent, "label_margin": o.whitespace.label_margin,
        "label_alignment": if o.whitespace.label_alignment == Alignment::Left { "left" } else { "right" },
        "code_margin": o.whitespace.code_margin,
    })
}

fn text(s: &str) -> Value {
    Value::Array(s.chars().map(|c| json!(c as u32)).collect())
}

fn untext(v: &Value) -> String {
    v.as_array()
        .map(|a| a.iter().filter_map(|c| c.as_u64().and_then(|c| char::from_u32(c as u32))).collect())
        .unwrap_or_default()
}

fn source_from(req: &Value) -> (Arc<Mutex<dyn ParsingSource>>, String) {
    let mut src = InMemoryParsingSource::new();
    if let Some(files) = req.get("files").and_then(|f| f.as_object()) {
        for (k, v) in files {
            src = src.add(k.as_str(), v.as_str().unwrap_or(""));
        }
    }
    let entry = req.get("entry").and_then(|e| e.as_str()).unwrap_or("main.asm").to_string();
    (src.into(), entry)
}

// parse + (per file) chunk list, formatter output, line assembly of the chunk list through the hook, AST dump
fn cmd_chunks(req: &Value) -> Value {
    let mut out = Map::new();
    let (src, entry) = source_from(req);
    let (tree, perr) = parse(Path::new(&entry), src);
    out.insert("parse_errors".into(), json!(perr.iter().map(|d| d.message.clone()).collect::<Vec<_>>()));
    if let (Some(tree), true) = (tree, perr.is_empty()) {
        let opts = fmt_options(req);
        let mut m = Map::new();
        let mut names: Vec<String> = tree.files.keys().map(|p| p.to_string_lossy().to_string()).collect();
        names.sort();
        for n in names {
            let mut f = Map::new();
            match catch_unwind(AssertUnwindSafe(|| format(n.as_str(), tree.clone(), opts))) {
                Ok(s) => {
                    f.insert("formatted".into(), json!(s));
                }
                Err(p) => {
                    f.insert("panic".into(), json!(panic_msg(&p)));
                }
            }
            if let Ok(cs) = catch_unwind(AssertUnwindSafe(|| verif_chunks(n.as_str(), tree.clone(), opts))) {
                f.insert(
                    "chunks".into(),
                    Value::Array(cs.iter().map(|(ty, ind, s)| json!([ty, ind, text(s)])).collect()),
                );
                match catch_unwind(AssertUnwindSafe(|| verif_join_chunks(cs, &opts))) {
                    Ok(s) => {
                        f.insert("joined".into(), json!(s));
                    }
                    Err(p) => {
                        f.insert("join_panic".into(), json!(panic_msg(&p)));
                    }
                }
            }
            m.insert(n, Value::Object(f));
        }
        out.insert("files".into(), Value::Object(m));
        if req.get("ast").and_then(|b| b.as_bool()).unwrap_or(false) {
            out.insert("ast".into(), dump::tree_json(&tree));
        }
    }
    Value::Object(out)
}

// line assembly of an arbitrary chunk list [[ty, indent, [code points]], ...]
fn cmd_join(req: &Value) -> Value {
    let opts = fmt_options(req);
    let cs: Vec<(u8, usize, String)> = req
        .get("chunks")
        .and_then(|c| c.as_array())
        .map(|a| {
            a.iter()
                .map(|c| {
                    (
                        c.get(0).and_then(|x| x.as_u64()).unwrap_or(0) as u8,
                        c.get(1).and_then(|x| x.as_u64()).unwrap_or(0) as usize,
                        untext(c.get(2).unwrap_or(&Value::Null)),
                    )
                })
                .collect()
        })
        .unwrap_or_default();
    match catch_unwind(AssertUnwindSafe(|| verif_join_chunks(cs, &opts))) {
        Ok(s) => json!({"joined": text(&s)}),
        Err(p) => json!({"panic": panic_msg(&p)}),
    }
}

fn main() {
    std::panic::set_hook(Box::new(|_| {}));
    let stdin = std::io::stdin();
    let stdout = std::io::stdout();
    for line in stdin.lock().lines() {
        let line = match line {
            Ok(l) => l,
            Err(_) => break,
        };
        if line.trim().is_empty() {
            continue;
        }
        let req: Value = match serde_json::from_str(&line) {
            Ok(v) => v,
            Err(e) => {
                let mut o = stdout.lock();
                writeln!(o, "{}", json!({"bad_request": e.to_string()})).unwrap();
                o.flush().unwrap();
                continue;
            }
        };
        let cmd = req.get("cmd").and_then(|c| c.as_str()).unwrap_or("").to_string();
        let r = catch_unwind(AssertUnwindSafe(|| match cmd.as_str() {
            "chunks" => cmd_chunks(&req),
            "join" => cmd_join(&req),
            "defaults" => defaults(),
            _ => json!({"bad_request": "unknown cmd"}),
        }));
        let reply = match r {
            Ok(v) => v,
            Err(p) => json!({"panic": panic_msg(&p)}),
        };
        let mut o = stdout.lock();
        writeln!(o, "{}", reply).unwrap();
        o.flush().unwrap();
    }
}

// (copy of harness/src/dump.rs; the items of an interpolated string additionally carry their trivia)
// Canonical dumps of the real parser's output: Display rendering and a JSON AST
// (consumed by the Coq-extracted assembler model, so that the codegen model is
// tied on "token tree as produced by the real parser").
use mos_core::parser::code_map::Span;
use mos_core::parser::*;
use serde_json::{json, Value};

pub fn render(tree: &ParseTree) -> String {
    let mut s = String::new();
    for t in tree.main_file().tokens.iter() {
        s.push_str(&format!("{}", t));
    }
    s
}

fn sp(s: Span) -> Value {
    json!([s.low().as_usize(), s.high().as_usize()])
}

fn trivia_json<T>(l: &Located<T>) -> Value {
    match &l.trivia {
        None => Value::Null,
        Some(t) => {
            let items: Vec<Value> = t
                .data
                .iter()
                .map(|x| match x {
                    Trivia::Whitespace(s) => json!(["ws", s]),
                    Trivia::NewLine => json!(["nl"]),
                    Trivia::CStyle(s) => json!(["c", s]),
                    Trivia::CppStyle(s) => json!(["cpp", s]),
                })
                .collect();
            json!({"span": sp(t.span), "items": items})
        }
    }
}

fn loc_str<T: ToString>(l: &Located<T>) -> Value {
    json!({"d": l.data.to_string(), "span": sp(l.span), "tr": trivia_json(l)})
}

fn opt_loc_str<T: ToString>(l: &Option<Located<T>>) -> Value {
    match l {
        Some(l) => loc_str(l),
        None => Value::Null,
    }
}

fn istr(i: &InterpolatedString) -> Value {
    let items: Vec<Value> = i
        .items
        .iter()
        .map(|it| match it {
            InterpolatedStringItem::String(s) => json!({"s": s.data, "span": sp(s.span), "tr": trivia_json(s)}),
            InterpolatedStringItem::IdentifierPath(p) => {
                json!({"p": p.data.to_string(), "span": sp(p.span), "tr": trivia_json(p)})
            }
        })
        .collect();
    json!({"lquote": loc_str(&i.lquote), "items": items, "span": sp(i.span())})
}

fn factor(f: &Located<ExpressionFactor>) -> Value {
    let mut v = match &f.data {
        ExpressionFactor::CurrentProgramCounter(star) => json!({"k": "pc", "star": loc_str(star)}),
        ExpressionFactor::ExprParens { lparen, inner, rparen } => {
            json!({"k": "parens", "inner": expr(inner), "lparen": loc_str(lparen), "rparen": loc_str(rparen)})
        }
        ExpressionFactor::FunctionCall { name, lparen, args, rparen } => {
            json!({"k": "call", "name": loc_str(name), "lparen": loc_str(lparen), "rparen": loc_str(rparen),
                   "args": args.iter().map(|(a, c)| json!({"e": expr(a), "comma": opt_loc_str(c)})).collect::<Vec<_>>()})
        }
        ExpressionFactor::IdentifierValue { path, modifier } => {
            json!({"k": "id", "path": loc_str(path),
                   "mod": modifier.as_ref().map(|m| match m.data { AddressModifier::HighByte => ">", AddressModifier::LowByte => "<" }),
                   "modl": opt_loc_str(modifier)})
        }
        ExpressionFactor::Number { ty, value } => {
            let radix = match ty.data {
                NumberType::Hex => 16,
                NumberType::Dec => 10,
                NumberType::Bin => 2,
            };
            json!({"k": "num", "radix": radix, "digits": value.data.to_string(), "ty": loc_str(ty), "value": loc_str(value)})
        }
        ExpressionFactor::InterpolatedString(i) => json!({"k": "str", "s": istr(i)}),
    };
    v.as_object_mut().unwrap().insert("span".into(), sp(f.span));
    v.as_object_mut().unwrap().insert("tr".into(), trivia_json(f));
    v
}

pub fn expr(e: &Located<Expression>) -> Value {
    let mut v = match &e.data {
        Expression::BinaryExpression(b) => {
            json!({"e": "bin", "op": b.op.data.to_string(), "opl": loc_str(&b.op), "l": expr(&b.lhs), "r": expr(&b.rhs)})
        }
        Expression::Factor { factor: f, flags, tag_not, tag_neg } => {
            json!({"e": "fac", "not": flags.contains(ExpressionFactorFlags::NOT), "neg": flags.contains(ExpressionFactorFlags::NEG),
                   "f": factor(f), "tag_not": opt_loc_str(tag_not), "tag_neg": opt_loc_str(tag_neg)})
        }
    };
    v.as_object_mut().unwrap().insert("span".into(), sp(e.span));
    v.as_object_mut().unwrap().insert("tr".into(), trivia_json(e));
    v
}

fn block(b: &Block) -> Value {
    json!({"lparen": loc_str(&b.lparen), "rparen": loc_str(&b.rparen),
           "inner": b.inner.iter().map(token).collect::<Vec<_>>()})
}

fn opt_block(b: &Option<Block>) -> Value {
    match b {
        Some(b) => block(b),
        None => Value::Null,
    }
}

fn args_e(args: &[ArgItem<Expression>]) -> Value {
    Value::Array(
        args.iter()
            .map(|(a, c)| json!({"e": expr(a), "comma": opt_loc_str(c)}))
            .collect(),
    )
}

fn import_as(a: &Option<ImportAs>) -> Value {
    match a {
        Some(a) => json!({"tag": loc_str(&a.tag), "path": loc_str(&a.path)}),
        None => Value::Null,
    }
}

pub fn token(t: &Token) -> Value {
    match t {
        Token::Align { tag, value } => json!({"t": "align", "tag": loc_str(tag), "value": expr(value)}),
        Token::Assert { tag, value, failure_message } => {
            json!({"t": "assert", "tag": loc_str(tag), "value": expr(value), "msg": failure_message.as_ref().map(istr)})
        }
        Token::Braces { block: b, scope } => json!({"t": "braces", "block": block(b), "scope": scope.to_string()}),
        Token::Config(b) => json!({"t": "config", "block": block(b)}),
        Token::ConfigPair { key, eq, value } => {
            json!({"t": "pair", "key": loc_str(key), "eq": loc_str(eq), "value": token(&value.data),
                   "vspan": sp(value.span), "vtr": trivia_json(value)})
        }
        Token::Data { values, size } => {
            let sz = match size.data {
                DataSize::Byte => 1,
                DataSize::Word => 2,
                DataSize::Dword => 4,
            };
            json!({"t": "data", "size": sz, "sizel": loc_str(size), "values": args_e(values)})
        }
        Token::Definition { tag, id, value } => {
            json!({"t": "define", "tag": loc_str(tag), "id": loc_str(id), "value": value.as_ref().map(|v| token(v))})
        }
        Token::Eof(l) => json!({"t": "eof", "span": sp(l.span), "tr": trivia_json(l)}),
        Token::Error(l) => json!({"t": "error", "l": loc_str(l)}),
        Token::Expression(e) => {
            // a bare Expression has no Located wrapper; dump its structure via a synthetic wrapper
            match e {
                Expression::Factor { factor: f, flags, tag_not, tag_neg } => {
                    json!({"t": "expr", "e": {"e": "fac", "not": flags.contains(ExpressionFactorFlags::NOT),
                        "neg": flags.contains(ExpressionFactorFlags::NEG), "f": factor(f),
                        "tag_not": opt_loc_str(tag_not), "tag_neg": opt_loc_str(tag_neg), "span": sp(f.span), "tr": Value::Null}})
                }
                Expression::BinaryExpression(b) => {
                    json!({"t": "expr", "e": {"e": "bin", "op": b.op.data.to_string(), "opl": loc_str(&b.op),
                        "l": expr(&b.lhs), "r": expr(&b.rhs), "span": sp(b.lhs.span.merge(b.rhs.span)), "tr": Value::Null}})
                }
            }
        }
        Token::If { tag_if, value, if_, tag_else, else_ } => {
            json!({"t": "if", "tag": loc_str(tag_if), "value": expr(value), "if": block(if_),
                   "tag_else": opt_loc_str(tag_else), "else": opt_block(else_)})
        }
        Token::Import { tag, args, from, filename, block: b, import_scope, resolved_path } => {
            let a = match args {
                ImportArgs::All(star, as_) => json!({"all": loc_str(star), "as": import_as(as_)}),
                ImportArgs::Specific(v) => json!({"specific": v.iter().map(|(a, c)| {
                    json!({"path": loc_str(&a.data.path), "as": import_as(&a.data.as_), "span": sp(a.span),
                           "tr": trivia_json(a), "comma": opt_loc_str(c)})
                }).collect::<Vec<_>>()}),
            };
            json!({"t": "import", "tag": loc_str(tag), "args": a, "from": loc_str(from), "filename": istr(filename),
                   "block": opt_block(b), "scope": import_scope.to_string(),
                   "resolved": resolved_path.to_string_lossy()})
        }
        Token::File { tag, filename } => json!({"t": "file", "tag": loc_str(tag), "filename": istr(filename)}),
        Token::Instruction(i) => {
            let op = i.operand.as_ref().map(|o| {
                let am = match o.addressing_mode {
                    AddressingMode::AbsoluteOrZp => "AbsoluteOrZp",
                    AddressingMode::Immediate => "Immediate",
                    AddressingMode::Implied => "Implied",
                    AddressingMode::Indirect => "Indirect",
                    AddressingMode::OuterIndirect => "OuterIndirect",
                };
                json!({"expr": expr(&o.expr), "am": am, "lchar": opt_loc_str(&o.lchar), "rchar": opt_loc_str(&o.rchar),
                       "suffix": o.suffix.as_ref().map(|s| json!({"reg": s.register.data.to_string(),
                            "comma": loc_str(&s.comma), "regl": loc_str(&s.register)}))})
            });
            json!({"t": "instr", "mn": format!("{:?}", i.mnemonic.data), "mnl": loc_str(&i.mnemonic), "operand": op})
        }
        Token::Label { id, colon, block: b } => {
            json!({"t": "label", "id": loc_str(id), "colon": loc_str(colon), "block": opt_block(b)})
        }
        Token::Loop { tag, loop_scope, expr: e, block: b } => {
            json!({"t": "loop", "tag": loc_str(tag), "scope": loop_scope.to_string(), "expr": expr(e), "block": block(b)})
        }
        Token::MacroDefinition { tag, id, lparen, args, rparen, block: b } => {
            json!({"t": "macrodef", "tag": loc_str(tag), "id": loc_str(id), "lparen": loc_str(lparen), "rparen": loc_str(rparen),
                   "args": args.iter().map(|(a, c)| json!({"id": loc_str(a), "comma": opt_loc_str(c)})).collect::<Vec<_>>(),
                   "block": block(b)})
        }
        Token::MacroInvocation { id, lparen, args, rparen } => {
            json!({"t": "invoke", "id": loc_str(id), "lparen": loc_str(lparen), "rparen": loc_str(rparen), "args": args_e(args)})
        }
        Token::ProgramCounterDefinition { star, eq, value } => {
            json!({"t": "pc", "star": loc_str(star), "eq": loc_str(eq), "value": expr(value)})
        }
        Token::Segment { tag, id, block: b } => {
            json!({"t": "segment", "tag": loc_str(tag), "id": expr(id), "block": opt_block(b)})
        }
        Token::Test { tag, id, block: b } => json!({"t": "test", "tag": loc_str(tag), "id": expr(id), "block": block(b)}),
        Token::Text { tag, encoding, text } => {
            json!({"t": "text", "tag": loc_str(tag), "encoding": encoding.as_ref().map(|e| e.data.to_string()),
                   "encl": opt_loc_str(encoding), "text": expr(text)})
        }
        Token::Trace { tag, lparen, args, rparen } => {
            json!({"t": "trace", "tag": loc_str(tag), "lparen": opt_loc_str(lparen), "rparen": opt_loc_str(rparen), "args": args_e(args)})
        }
        Token::VariableDefinition { ty, id, eq, value } => {
            let k = match ty.data {
                VariableType::Constant => "const",
                VariableType::Variable => "var",
            };
            json!({"t": "vardef", "ty": k, "tyl": loc_str(ty), "id": loc_str(id), "eq": loc_str(eq), "value": expr(value)})
        }
    }
}

pub fn tree_json(tree: &ParseTree) -> Value {
    let mut files = serde_json::Map::new();
    let mut names: Vec<_> = tree.files.keys().cloned().collect();
    names.sort();
    for n in names {
        let pf = &tree.files[&n];
        files.insert(
            n.to_string_lossy().to_string(),
            json!({"base": pf.file.span.low().as_usize(), "len": pf.file.source().len(),
                   "tokens": pf.tokens.iter().map(token).collect::<Vec<_>>()}),
        );
    }
    json!({"main": tree.main_file.to_string_lossy(), "files": files,
           "order": tree.code_map.files().iter().map(|f| f.name().to_string()).collect::<Vec<_>>()})
}

(* mosmodel: line-protocol driver around the Coq-extracted model (Model).
   One JSON request per line on stdin, one JSON reply per line on stdout.
   Text is exchanged as arrays of Unicode scalar values; integers of any size as JSON numbers
   (converted digit by digit with the extracted Z arithmetic, never through OCaml int). *)
open Model

(* ---------- minimal JSON ---------- *)
type json = Null | Bool of bool | Num of string | Str of string | Arr of json list | Obj of (string * json) list

exception Parse_error of string

let parse_json (s : string) : json =
  let n = String.length s in
  let i = ref 0 in
  let peek () = if !i < n then s.[!i] else '\000' in
  let rec ws () = if !i < n && (s.[!i] = ' ' || s.[!i] = '\t' || s.[!i] = '\n' || s.[!i] = '\r') then (incr i; ws ()) in
  let expect c = if peek () = c then incr i else raise (Parse_error (Printf.sprintf "expected %c at %d" c !i)) in
  let rec value () =
    ws ();
    match peek () with
    | '{' -> incr i; ws ();
      if peek () = '}' then (incr i; Obj [])
      else begin
        let rec members acc =
          ws (); let k = str () in ws (); expect ':'; let v = value () in ws ();
          if peek () = ',' then (incr i; members ((k, v) :: acc))
          else (expect '}'; Obj (List.rev ((k, v) :: acc))) in
        members []
      end
    | '[' -> incr i; ws ();
      if peek () = ']' then (incr i; Arr [])
      else begin
        let rec elems acc =
          let v = value () in ws ();
          if peek () = ',' then (incr i; elems (v :: acc))
          else (expect ']'; Arr (List.rev (v :: acc))) in
        elems []
      end
    | '"' -> Str (str ())
    | 't' -> i := !i + 4; Bool true
    | 'f' -> i := !i + 5; Bool false
    | 'n' -> i := !i + 4; Null
    | _ ->
      let st = !i in
      while !i < n && (match s.[!i] with '0'..'9' | '-' | '+' | '.' | 'e' | 'E' -> true | _ -> false) do incr i done;
      if !i = st then raise (Parse_error (Printf.sprintf "unexpected char at %d" st));
      Num (String.sub s st (!i - st))
  and str () =
    expect '"';
    let b = Buffer.create 16 in
    let rec go () =
      if !i >= n then raise (Parse_error "unterminated string");
      let c = s.[!i] in
      incr i;
      if c = '"' then ()
      else if c = '\\' then begin
        let e = s.[!i] in incr i;
        (match e with
         | 'n' -> Buffer.add_char b '\n' | 't' -> Buffer.add_char b '\t' | 'r' -> Buffer.add_char b '\r'
         | 'b' -> Buffer.add_char b '\b' | 'f' -> Buffer.add_char b '\012'
         | 'u' -> let h = int_of_string ("0x" ^ String.sub s !i 4) in i := !i + 4;
           if h < 128 then Buffer.add_char b (Char.chr h) else Buffer.add_char b '?'
         | c -> Buffer.add_char b c);
        go ()
      end else (Buffer.add_char b c; go ()) in
    go (); Buffer.contents b in
  let v = value () in v

let rec print_json (b : Buffer.t) (j : json) : unit =
  match j with
  | Null -> Buffer.add_string b "null"
  | Bool true -> Buffer.add_string b "true"
  | Bool false -> Buffer.add_string b "false"
  | Num s -> Buffer.add_string b s
  | Str s ->
    Buffer.add_char b '"';
    String.iter (fun c ->
        match c with
        | '"' -> Buffer.add_string b "\\\"" | '\\' -> Buffer.add_string b "\\\\"
        | '\n' -> Buffer.add_string b "\\n" | '\r' -> Buffer.add_string b "\\r" | '\t' -> Buffer.add_string b "\\t"
        | c when Char.code c < 32 -> Buffer.add_string b (Printf.sprintf "\\u%04x" (Char.code c))
        | c -> Buffer.add_char b c) s;
    Buffer.add_char b '"'
  | Arr l -> Buffer.add_char b '['; List.iteri (fun k x -> if k > 0 then Buffer.add_char b ','; print_json b x) l; Buffer.add_char b ']'
  | Obj l ->
    Buffer.add_char b '{';
    List.iteri (fun k (key, x) -> if k > 0 then Buffer.add_char b ','; print_json b (Str key); Buffer.add_char b ':'; print_json b x) l;
    Buffer.add_char b '}'

let field (j : json) (k : string) : json = match j with Obj l -> (try List.assoc k l with Not_found -> Null) | _ -> Null
let to_list = function Arr l -> l | _ -> []
let to_str = function Str s -> s | _ -> ""
let to_bool = function Bool b -> b | _ -> false

(* ---------- numbers: decimal text <-> Coq positive/N/Z ---------- *)
let rec pos_of_int (k : int) : positive =
  if k <= 1 then XH else if k land 1 = 0 then XO (pos_of_int (k lsr 1)) else XI (pos_of_int (k lsr 1))
let z_of_small (k : int) : z = if k = 0 then Z0 else if k > 0 then Zpos (pos_of_int k) else Zneg (pos_of_int (- k))
let z10 = z_of_small 10
let z_of_string (s : string) : z =
  let neg = String.length s > 0 && s.[0] = '-' in
  let acc = ref Z0 in
  String.iter (fun c -> match c with
      | '0'..'9' -> acc := Z.add (Z.mul !acc z10) (z_of_small (Char.code c - 48))
      | _ -> ()) s;
  if neg then Z.opp !acc else !acc
let rec int_of_pos (p : positive) : int = match p with XH -> 1 | XO q -> 2 * int_of_pos q | XI q -> 2 * int_of_pos q + 1
let small_of_z (x : z) : int = match x with Z0 -> 0 | Zpos p -> int_of_pos p | Zneg p -> - (int_of_pos p)
let string_of_z (x : z) : string =
  match x with
  | Z0 -> "0"
  | _ ->
    let neg = (match x with Zneg _ -> true | _ -> false) in
    let a = ref (if neg then Z.opp x else x) in
    let b = Buffer.create 20 in
    let digits = ref [] in
    while !a <> Z0 do
      let d = small_of_z (Z.modulo !a z10) in
      digits := d :: !digits;
      a := Z.div !a z10
    done;
    if neg then Buffer.add_char b '-';
    List.iter (fun d -> Buffer.add_char b (Char.chr (48 + d))) !digits;
    Buffer.contents b
let to_z (j : json) : z = match j with Num s -> z_of_string s | Str s -> z_of_string s | _ -> Z0
let to_n (j : json) : n = Z.to_N (to_z j)
let to_int (j : json) : int = small_of_z (to_z j)
let rec nat_of_int (k : int) : nat = if k <= 0 then O else S (nat_of_int (k - 1))
let rec int_of_nat (k : nat) : int = match k with O -> 0 | S m -> 1 + int_of_nat m
let jz (x : z) : json = Num (string_of_z x)
let jn (x : n) : json = Num (string_of_z (Z.of_N x))
let jint (k : int) : json = Num (string_of_int k)
let jnat (k : nat) : json = Num (string_of_int (int_of_nat k))
let jopt f = function Some x -> f x | None -> Null
let jlist f l = Arr (List.map f l)
let to_opt f = function Null -> None | j -> Some (f j)
let text_of (j : json) : n list = List.map to_n (to_list j)
let jtext (t : n list) : json = Arr (List.map jn t)

(* ---------- C01 ---------- *)
let nth_or_fail l k = List.nth l k

let cmd_encode (req : json) : json =
  let m = nth_or_fail all_mnemonics (to_int (field req "mn")) in
  let f = nth_or_fail all_forms (to_int (field req "form")) in
  let v = to_z (field req "v") in
  let cur = to_opt to_z (field req "cur") in
  let (bytes, err) = emit_instruction m f v cur in
  let spec =
    if is_branch m then
      (match cur with Some pc when f = FAbs -> jopt (jlist jn) (spec_branch m pc v) | _ -> Str "n/a")
    else jopt (jlist jn) (spec_encode m f v) in
  Obj [ ("bytes", jlist jn bytes);
        ("err", (match err with None -> Null | Some TooFar -> Str "TooFar" | Some InvalidInstruction -> Str "Invalid" | Some InstrPanic -> Str "Panic"));
        ("spec", spec);
        ("branch", Bool (is_branch m)) ]

(* ---------- C09 ---------- *)
let seg_of (j : json) : segment =
  { s_start = to_z (field j "start"); s_data = List.map to_n (to_list (field j "data"));
    s_bank = to_opt to_n (field j "bank"); s_write = to_bool (field j "write") }
let bankopts_of (j : json) : bank_options =
  { b_name = to_n (field j "name"); b_size = to_opt to_z (field j "size");
    b_fill = to_opt to_n (field j "fill"); b_filename = to_opt to_n (field j "filename") }
let fmt_of (j : json) : output_format option =
  match j with Str "prg" -> Some Prg | Str "bin" -> Some Bin | _ -> None
let jfiles (fs : (n option * n list) list) : json =
  Arr (List.map (fun (f, d) -> Arr [ jopt jn f; jlist jn d ]) fs)
let jmerge_error = function
  | UnknownBank (i, b) -> Obj [ ("kind", Str "unknown_bank"); ("seg", jnat i); ("bank", jn b) ]
  | BankTooShortNoFill (b, s, l) -> Obj [ ("kind", Str "short_no_fill"); ("bank", jn b); ("size", jz s); ("len", jz l) ]
  | BankTooLarge (b, s, l) -> Obj [ ("kind", Str "too_large"); ("bank", jn b); ("size", jz s); ("len", jz l) ]

let jbuild_result = function
  | BuildFiles fs -> Obj [ ("result", Str "files"); ("files", jfiles fs) ]
  | BuildPrgNeedsSingleBank -> Obj [ ("result", Str "prg_single") ]
  | BuildMergeErrors es -> Obj [ ("result", Str "errors"); ("errors", jlist jmerge_error es) ]

let cmd_layout (req : json) : json =
  let fmt = fmt_of (field req "format") in
  let banks = List.map bankopts_of (to_list (field req "banks")) in
  let segs = List.map seg_of (to_list (field req "segs")) in
  if to_bool (field req "declared") then begin
    let dflt = to_n (field req "default") in
    let model = match build_project dflt fmt banks segs with
      | ProjectUnassigned l -> Obj [ ("result", Str "unassigned"); ("segs", jlist jnat l) ]
      | ProjectBuilt r -> jbuild_result r in
    let spec = match spec_project dflt fmt banks segs with Some fs -> jfiles fs | None -> Null in
    Obj [ ("model", model); ("spec", spec) ]
  end else begin
    let model = jbuild_result (build_output fmt banks segs) in
    let merged =
      match merge_segments banks segs with
      | Inl m -> jlist (fun (o, b) -> Obj [ ("name", jn o.b_name); ("lo", jz b.k_lo); ("hi", jz b.k_hi); ("data", jlist jn b.k_data) ]) m
      | Inr es -> Null in
    let spec = match spec_build fmt banks segs with Some fs -> jfiles fs | None -> Null in
    Obj [ ("model", model); ("merged", merged); ("spec", spec) ]
  end

let cmd_finalize (req : json) : json =
  let banks = List.map to_n (to_list (field req "banks")) in
  let sb = List.map (to_opt to_n) (to_list (field req "seg_banks")) in
  let ((b, s), u) = finalize (to_n (field req "default")) banks sb in
  Obj [ ("banks", jlist jn b); ("seg_banks", jlist (jopt jn) s); ("unassigned", jlist jnat u) ]

(* ---------- C03 ---------- *)
let all_ops = all_binops
let op_names = [ "+"; "-"; "*"; "/"; "%"; "<<"; ">>"; "^"; "=="; "!="; ">"; ">="; "<"; "<="; "&&"; "||" ]
let op_name (o : binop) : string =
  let rec go l n = match l, n with x :: r, s :: t -> if x = o then s else go r t | _ -> "?" in go all_ops op_names
let op_of_name (s : string) : binop =
  let rec go l n = match l, n with x :: r, t :: u -> if t = s then x else go r u | _ -> failwith ("bad op " ^ s) in go all_ops op_names
let jmod = function None -> Null | Some LowByte -> Str "<" | Some HighByte -> Str ">"
let rec jexpr (e : expr) : json =
  match e with
  | EBin (op, l, r) -> Arr [ Str "bin"; Str (op_name op); jexpr l; jexpr r ]
  | ENum (radix, d, a, b) -> Arr [ Str "num"; jz radix; jtext d; Bool a; Bool b ]
  | EId (p, m, a, b) -> Arr [ Str "id"; jlist jtext p; jmod m; Bool a; Bool b ]
  | EPc (a, b) -> Arr [ Str "pc"; Bool a; Bool b ]
  | EParens (i, a, b) -> Arr [ Str "parens"; jexpr i; Bool a; Bool b ]
  | ECall (n, args, a, b) -> Arr [ Str "call"; jtext n; jlist jexpr args; Bool a; Bool b ]
  | EStr (items, a, b) ->
    Arr [ Str "str"; jlist (function SLit s -> Arr [ Str "lit"; jtext s ] | SPath p -> Arr [ Str "path"; jlist jtext p ]) items; Bool a; Bool b ]
let rec expr_of (j : json) : expr =
  match j with
  | Arr [ Str "bin"; Str op; l; r ] -> EBin (op_of_name op, expr_of l, expr_of r)
  | Arr [ Str "num"; radix; d; a; b ] -> ENum (to_z radix, text_of d, to_bool a, to_bool b)
  | Arr [ Str "id"; p; m; a; b ] ->
    EId (List.map text_of (to_list p), (match m with Str "<" -> Some LowByte | Str ">" -> Some HighByte | _ -> None), to_bool a, to_bool b)
  | Arr [ Str "pc"; a; b ] -> EPc (to_bool a, to_bool b)
  | Arr [ Str "parens"; i; a; b ] -> EParens (expr_of i, to_bool a, to_bool b)
  | Arr [ Str "call"; n; args; a; b ] -> ECall (text_of n, List.map expr_of (to_list args), to_bool a, to_bool b)
  | Arr [ Str "str"; items; a; b ] ->
    EStr (List.map (function Arr [ Str "lit"; s ] -> SLit (text_of s) | Arr [ Str "path"; p ] -> SPath (List.map text_of (to_list p)) | _ -> failwith "item") (to_list items),
          to_bool a, to_bool b)
  | _ -> failwith "bad expr json"

(* env: {"syms": [[path(list of texts), ["num", z] | ["str", text] | ["placeholder"] | ["macro"]], ...], "pc": z|null} *)
let env_of (j : json) : env =
  let syms = List.map (fun e -> match e with
      | Arr [ p; v ] ->
        (List.map text_of (to_list p),
         (match v with
          | Arr [ Str "num"; z ] -> DNum (to_z z)
          | Arr [ Str "str"; s ] -> DStr (text_of s)
          | Arr [ Str "placeholder" ] -> DPlaceholder
          | _ -> DMacro))
      | _ -> failwith "bad sym") (to_list (field j "syms")) in
  { lookup = (fun p -> List.assoc_opt p syms); cur_pc = to_opt to_z (field j "pc") }
let jsval = function SNum z -> Arr [ Str "num"; jz z ] | SStr s -> Arr [ Str "str"; jtext s ]
let jeres = function
  | EVal None -> Obj [ ("r", Str "none") ]
  | EVal (Some v) -> Obj [ ("r", Str "val"); ("v", jsval v) ]
  | EErr _ -> Obj [ ("r", Str "err") ]
  | EPanic -> Obj [ ("r", Str "panic") ]

let cmd_parse_expr (req : json) : json =
  let s = text_of (field req "text") in
  match parse_expression s with
  | Some (e, rest) -> Obj [ ("ok", Bool true); ("ast", jexpr e); ("consumed", jint (List.length s - List.length rest)) ]
  | None -> Obj [ ("ok", Bool false) ]

let cmd_eval_expr (req : json) : json =
  let en = env_of (field req "env") in
  let e = match field req "ast" with
    | Null -> (match parse_expression (text_of (field req "text")) with
               | Some (e, rest) -> if ws rest = [] then Some e else None   (* the statement parser rejects leftovers *)
               | None -> None)
    | j -> Some (expr_of j) in
  match e with
  | None -> Obj [ ("r", Str "noparse") ]
  | Some e ->
    let r = eval en e in
    let size = to_int (field req "size") in
    let bytes = match r with EVal (Some (SNum z)) when size > 0 -> jlist jn (emit_data (nat_of_int size) z) | _ -> Null in
    (match jeres r with Obj l -> Obj (l @ [ ("bytes", bytes) ]) | j -> j)

(* spec: sem over Z for a tree of the numeric sublanguage; identifiers bound by the env's numbers *)
let cmd_sem_expr (req : json) : json =
  let en = env_of (field req "env") in
  let num p = match en.lookup p with Some (DNum z) -> z | _ -> Z0 in
  let pc = match en.cur_pc with Some p -> p | None -> Z0 in
  let v = sem num pc (expr_of (field req "ast")) in
  let size = to_int (field req "size") in
  Obj [ ("v", jz v); ("bytes", jlist jn (spec_le_bytes (nat_of_int size) (Z.modulo v (Z.pow (z_of_small 2) (z_of_small (8 * size)))))) ]

(* canonical concrete syntax (spec/ExprPrint.v): print it, say whether it is well-formed, and give the tree it denotes *)
let rec loose_of (j : json) : loose =
  match j with
  | Arr [ Str "L1"; t ] -> L1 (tight_of t)
  | Arr [ Str "LBin"; l; Str op; t ] -> LBin (loose_of l, op_of_name op, tight_of t)
  | _ -> failwith "bad loose"
and tight_of (j : json) : tight =
  match j with
  | Arr [ Str "T1"; f ] -> T1 (factor_of f)
  | Arr [ Str "TBin"; t; Str op; f ] -> TBin (tight_of t, op_of_name op, factor_of f)
  | _ -> failwith "bad tight"
and factor_of (j : json) : factor =
  match j with
  | Arr [ Str "num"; radix; d ] -> FNum (to_z radix, text_of d)
  | Arr [ Str "id"; name ] -> FId (text_of name)
  | Arr [ Str "par"; l ] -> FParens (loose_of l)
  | _ -> failwith "bad factor"
let cmd_print_canon (req : json) : json =
  let l = loose_of (field req "tree") in
  Obj [ ("wf", Bool (wf_loose l)); ("text", jtext (pr_loose l)); ("ast", jexpr (expr_of_loose l)) ]

(* .text: model bytes of a string in an encoding, and the spec bytes (printable ASCII only, else null) *)
let cmd_encode_text (req : json) : json =
  let s = text_of (field req "text") in
  let enc = match to_str (field req "enc") with "petscii" -> EncPetscii | "petscreen" -> EncPetscreen | _ -> EncAscii in
  let printable = List.for_all (fun c -> let k = small_of_z (Z.of_N c) in k >= 32 && k <= 126) s in
  let spec = if not printable then Null else
      (match enc with EncAscii -> jtext s | EncPetscii -> jtext (List.map spec_petscii s) | EncPetscreen -> jtext (List.map spec_screen s)) in
  Obj [ ("bytes", jtext (encode_text enc s)); ("spec", spec) ]

let handlers : (string * (json -> json)) list ref = ref [ ("print_canon", cmd_print_canon); ("encode_text", cmd_encode_text); ("encode", cmd_encode); ("layout", cmd_layout); ("finalize", cmd_finalize);
    ("parse_expr", cmd_parse_expr); ("eval_expr", cmd_eval_expr); ("sem_expr", cmd_sem_expr) ]

let () =
  (try
     while true do
       let line = input_line stdin in
       if String.trim line <> "" then begin
         let reply =
           try
             let req = parse_json line in
             let cmd = to_str (field req "cmd") in
             (match List.assoc_opt cmd !handlers with
              | Some h -> h req
              | None -> Obj [ ("bad_request", Str ("unknown cmd " ^ cmd)) ])
           with
           | Parse_error e -> Obj [ ("bad_request", Str e) ]
           | Stack_overflow -> Obj [ ("model_error", Str "stack overflow") ]
           | Not_found -> Obj [ ("model_error", Str "not found") ]
           | Failure e -> Obj [ ("model_error", Str e) ]
           | Invalid_argument e -> Obj [ ("model_error", Str e) ] in
         let b = Buffer.create 256 in
         print_json b reply;
         Buffer.add_char b '\n';
         print_string (Buffer.contents b);
         flush stdout
       end
     done
   with End_of_file -> ())

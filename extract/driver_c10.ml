(* driver for the extracted C10 model: JSON lines in, JSON lines out.  Names are arrays of code points. *)

let jname (t : n list) : json = jtext t
let to_name (j : json) : n list = text_of j
let to_path (j : json) : n list list = List.map to_name (to_list j)
let jpath (p : n list list) : json = Arr (List.map jname p)
let jspan ((lo, hi) : n * n) : json = Arr [ jn lo; jn hi ]
let to_span (j : json) : n * n = match to_list j with [ a; b ] -> (to_n a, to_n b) | _ -> failwith "span"

(* oracles: 0 = identity, 1 = reverse everywhere, k >= 2 = a shuffle seeded by (k, call) *)
let rec ints_of_call (c : nat list) : int list = List.map int_of_nat c
let shuffle_oracle (seed : int) : oracle =
  fun _ call l ->
    let st = Random.State.make (Array.of_list (seed :: ints_of_call call)) in
    let a = Array.of_list l in
    let n = Array.length a in
    for i = n - 1 downto 1 do
      let j = Random.State.int st (i + 1) in
      let t = a.(i) in a.(i) <- a.(j); a.(j) <- t
    done;
    Array.to_list a
let oracle_of (j : json) : oracle =
  match to_int j with
  | 0 -> (fun _ c l -> ident_oracle c l)
  | 1 -> (fun _ c l -> rev_oracle c l)
  | k -> shuffle_oracle k

let coll_of (j : json) : coll_kind =
  match to_str j with "hashed" -> Hashed | "ordered" -> Ordered | _ -> sites.sc_to_import
let iter_of (dflt : iter_kind) (j : json) : iter_kind =
  match to_str j with "hashed" -> IterHashed | "sorted" -> IterSortedByKey | _ -> dflt
let key_of (j : json) : undef_key =
  match to_str j with "name" -> KeyName | "name_span" -> KeyNameSpan | _ -> sites.sc_undef_key

let to_event (j : json) : event =
  match to_list j with
  | Str "scope" :: _ -> EScope
  | [ Str "import"; p; lo; hi ] -> EImport (to_path p, (to_n lo, to_n hi))
  | [ Str "error"; lo; hi ] -> EError (to_n lo, to_n hi)
  | _ -> failwith "event"

let jdiag (d : diag) : json =
  match d with
  | UnknownIdentifier (id, sp) -> Obj [ ("kind", Str "unknown_identifier"); ("id", jname id); ("span", jopt jspan sp) ]
  | FileNotFound (p, sp) -> Obj [ ("kind", Str "file_not_found"); ("path", jpath p); ("span", jspan sp) ]
  | ParseError sp -> Obj [ ("kind", Str "parse_error"); ("span", jspan sp) ]
  | CannotImportDefined (id, sp) -> Obj [ ("kind", Str "cannot_import_defined"); ("id", jname id); ("span", jspan sp) ]
  | MissingRequired fs -> Obj [ ("kind", Str "missing_required"); ("fields", Arr (List.map jname fs)) ]

let h_sites (_ : json) : json =
  Obj [ ("to_import", Str (match sites.sc_to_import with Hashed -> "hashed" | Ordered -> "ordered"));
        ("undef_key", Str (match sites.sc_undef_key with KeyName -> "name" | KeyNameSpan -> "name_span"));
        ("vice_sorted", Bool sites.sc_vice_sorted);
        ("listing", Str (match sites.sc_listing with IterHashed -> "hashed" | IterSortedByKey -> "sorted"));
        ("import_all", Str (match sites.sc_import_all with IterHashed -> "hashed" | IterSortedByKey -> "sorted")) ]

let h_parse (req : json) : json =
  let project =
    List.map (fun f -> (to_path (field f "path"),
                        { src_len = to_n (field f "len"); src_events = List.map to_event (to_list (field f "events")) }))
      (to_list (field req "files")) in
  let guard = at_most_one_import_per_file project in
  match parse (coll_of (field req "kind")) (oracle_of (field req "oracle")) project (to_path (field req "main")) with
  | ParseOutOfFuel -> Obj [ ("out_of_fuel", Bool true) ]
  | Parsed st ->
    Obj [ ("files", Arr (List.map (fun pf -> Obj [ ("path", jpath pf.pf_path); ("base", jn pf.pf_base);
                                                   ("scopes", Arr (List.map jnat pf.pf_scopes)) ]) st.ps_files));
          ("errors", Arr (List.map jdiag st.ps_errors));
          ("counter", jnat st.ps_counter);
          ("at_most_one_import_per_file", Bool guard) ]

let h_undefined (req : json) : json =
  let und = List.map (fun u -> { us_scope = nat_of_int (to_int (field u "scope")); us_id = to_name (field u "id");
                                 us_span = to_opt to_span (field u "span") }) (to_list (field req "und")) in
  Obj [ ("diags", Arr (List.map jdiag (report_undefined (key_of (field req "key")) (oracle_of (field req "oracle")) und))) ]

let rec to_node (j : json) : sym_node =
  let data = match field j "data" with
    | Null -> None
    | d -> (match to_list d with
        | [ Str "label"; v ] -> Some { sy_ty = TyLabel; sy_value = to_z v }
        | [ _; v ] -> Some { sy_ty = TyOther; sy_value = to_z v }
        | _ -> failwith "data") in
  Node (nat_of_int (to_int (field j "nx")), data,
        List.map (fun c -> match to_list c with [ id; n ] -> (to_name id, to_node n) | _ -> failwith "child") (to_list (field j "children")))

let h_vice (req : json) : json =
  let sorted = match field req "sorted" with Bool b -> b | _ -> sites.sc_vice_sorted in
  Obj [ ("vice", jname (to_vice_symbols sorted (oracle_of (field req "oracle")) (to_node (field req "root")))) ]

(* Path::file_stem of the last component + ".lst" *)
let stem_lst (p : n list list) : n list =
  let last = match List.rev p with x :: _ -> x | [] -> [] in
  let dotn = z_of_small 46 |> Z.to_N in
  let rec last_dot i best = function [] -> best | c :: t -> last_dot (i + 1) (if c = dotn then i else best) t in
  let k = last_dot 0 (-1) last in
  let stem = if k <= 0 then last else List.filteri (fun i _ -> i < k) last in
  stem @ List.map (fun c -> Z.to_N (z_of_small (Char.code c))) [ '.'; 'l'; 's'; 't' ]

let h_listing (req : json) : json =
  let entries = List.map (fun e -> match to_list e with [ p; c ] -> (to_path p, to_name c) | _ -> failwith "entry") (to_list (field req "entries")) in
  let fs = write_listings (iter_of sites.sc_listing (field req "kind")) stem_lst (oracle_of (field req "oracle")) entries in
  Obj [ ("fs", Arr (List.map (fun (n, c) -> Arr [ jname n; jname c ]) fs)) ]

let h_import_all (req : json) : json =
  let children = List.map (fun c -> match to_list c with [ id; nx ] -> (to_name id, nat_of_int (to_int nx)) | _ -> failwith "child")
      (to_list (field req "children")) in
  let existing = List.map to_name (to_list (field req "existing")) in
  match import_all (iter_of sites.sc_import_all (field req "kind")) (oracle_of (field req "oracle")) O children existing (N0, N0) with
  | Inl done_ -> Obj [ ("ok", Arr (List.map jname done_)) ]
  | Inr d -> Obj [ ("clash", jdiag d) ]

let () = main_loop [ ("sites", h_sites); ("parse", h_parse); ("undefined", h_undefined); ("vice", h_vice);
                     ("listing", h_listing); ("import_all", h_import_all) ]

(* driver of the extracted assembler model (unit `asm`): reads mosprobe's AST dump, runs the model's codegen,
   the re-derivation oracle and the expander.  Compiled as `open Asm` + prelude.ml + this file. *)

let n_of_int (k : int) : n = Z.to_N (z_of_small k)
let text_of_string (s : string) : n list = List.init (String.length s) (fun i -> n_of_int (Char.code s.[i]))
let string_of_text (t : n list) : string =
  String.concat "" (List.map (fun c -> let k = small_of_z (Z.of_N c) in if k < 256 then String.make 1 (Char.chr k) else "?") t)
let split_path (s : string) : n list list = List.map text_of_string (String.split_on_char '.' s)
let string_of_path (p : n list list) : string = String.concat "." (List.map string_of_text p)
let span_of (j : json) : z * z = match to_list j with [a; b] -> (to_z a, to_z b) | _ -> (Z0, Z0)
let jspan ((a, b) : z * z) : json = Arr [jz a; jz b]

exception Unsupported of string

(* operator symbols in the order of BinOps.all_binops (constructor names are renamed by the extraction) *)
let binop_symbols = [| "+"; "-"; "*"; "/"; "%"; "<<"; ">>"; "^"; "=="; "!="; ">"; ">="; "<"; "<="; "&&"; "||" |]
let binop_of_string (s : string) : binop =
  let rec go i l = match l with
    | [] -> raise (Unsupported ("binop " ^ s))
    | b :: r -> if i < Array.length binop_symbols && binop_symbols.(i) = s then b else go (i + 1) r in
  go 0 all_binops

(* expression dump -> (expr, spans of the tracked identifier paths in evaluation order) *)
let rec conv_expr (j : json) : expr * (z * z) list =
  match to_str (field j "e") with
  | "bin" ->
    let (l, ls) = conv_expr (field j "l") in
    let (r, rs) = conv_expr (field j "r") in
    (EBin (binop_of_string (to_str (field j "op")), l, r), ls @ rs)
  | _ ->
    let fnot = to_bool (field j "not") and fneg = to_bool (field j "neg") in
    let f = field j "f" in
    (match to_str (field f "k") with
     | "num" -> (ENum (to_z (field f "radix"), text_of_string (to_str (field f "digits")), fnot, fneg), [])
     | "id" ->
       let p = field f "path" in
       let m = (match field f "mod" with Str "<" -> Some LowByte | Str ">" -> Some HighByte | _ -> None) in
       (EId (split_path (to_str (field p "d")), m, fnot, fneg), [span_of (field p "span")])
     | "pc" -> (EPc (fnot, fneg), [])
     | "parens" -> let (i, is) = conv_expr (field f "inner") in (EParens (i, fnot, fneg), is)
     | "call" ->
       let args = List.map (fun a -> fst (conv_expr (field a "e"))) (to_list (field f "args")) in
       (ECall (text_of_string (to_str (field (field f "name") "d")), args, fnot, fneg), [])
     | "str" ->
       let items = to_list (field (field f "s") "items") in
       let conv it = (match field it "p" with
           | Str p -> (SPath (split_path p), [span_of (field it "span")])
           | _ -> (SLit (text_of_string (to_str (field it "s"))), [])) in
       let l = List.map conv items in
       (EStr (List.map fst l, fnot, fneg), List.concat (List.map snd l))
     | k -> raise (Unsupported ("factor " ^ k)))

let lexpr_of (j : json) : lexpr =
  let (e, ids) = conv_expr j in { le_expr = e; le_span = span_of (field j "span"); le_ids = ids }

let mnemonic_names = [| "adc"; "and"; "asl"; "bcc"; "bcs"; "beq"; "bit"; "bmi"; "bne"; "bpl"; "brk"; "bvc"; "bvs"; "clc"; "cld";
                        "cli"; "clv"; "cmp"; "cpx"; "cpy"; "dec"; "dex"; "dey"; "eor"; "inc"; "inx"; "iny"; "jmp"; "jsr"; "lda";
                        "ldx"; "ldy"; "lsr"; "nop"; "ora"; "pha"; "php"; "pla"; "plp"; "rol"; "ror"; "rti"; "rts"; "sbc"; "sec";
                        "sed"; "sei"; "sta"; "stx"; "sty"; "tax"; "tay"; "tsx"; "txa"; "txs"; "tya" |]
let mnemonic_of (s : string) : mnemonic option =
  let s = String.lowercase_ascii s in
  let rec go i l = match l with
    | [] -> None
    | m :: r -> if i < Array.length mnemonic_names && mnemonic_names.(i) = s then Some m else go (i + 1) r in
  if List.length all_mnemonics <> Array.length mnemonic_names then None else go 0 all_mnemonics
let mnemonic_name (m : mnemonic) : string =
  let rec go i l = match l with [] -> "?" | x :: r -> if x = m then mnemonic_names.(i) else go (i + 1) r in
  go 0 all_mnemonics

let form_of (am : string) (sfx : string option) : form option =
  match am, sfx with
  | "Immediate", None -> Some FImm
  | "AbsoluteOrZp", None -> Some FAbs
  | "AbsoluteOrZp", Some "x" -> Some FAbsX
  | "AbsoluteOrZp", Some "y" -> Some FAbsY
  | "Indirect", Some "x" -> Some FIndX
  | "Indirect", Some "y" -> Some FIndYinner
  | "OuterIndirect", Some "y" -> Some FIndY
  | "OuterIndirect", Some "x" -> Some FIndXouter
  | "OuterIndirect", None -> Some FInd
  | _ -> None

let ident_of (j : json) : n list = text_of_string (to_str (field j "d"))
let lspan (j : json) : z * z = span_of (field j "span")

let rec conv_token (files : json) (depth : int) (j : json) : token =
  let blk b = Blk (lspan (field b "lparen"), lspan (field b "rparen"), List.map (conv_token files depth) (to_list (field b "inner"))) in
  let oblk b = (match b with Null -> None | b -> Some (blk b)) in
  match to_str (field j "t") with
  | "align" -> TAlign (lexpr_of (field j "value"))
  | "braces" -> TBraces (text_of_string (to_str (field j "scope")), blk (field j "block"))
  | "data" -> TData (nat_of_int (to_int (field j "size")), List.map (fun a -> lexpr_of (field a "e")) (to_list (field j "values")))
  | "define" ->
    let id = field j "id" in
    let cfg = (match field j "value" with
        | Null -> None
        | v when to_str (field v "t") = "config" ->
          let pairs = List.filter (fun p -> to_str (field p "t") = "pair") (to_list (field (field v "block") "inner")) in
          Some (List.map (fun p ->
              let value = field p "value" in
              let ve = (if to_str (field value "t") = "expr" then
                          let (e, ids) = conv_expr (field value "e") in
                          Some { le_expr = e; le_span = span_of (field p "vspan"); le_ids = ids }
                        else None) in
              { cp_key = ident_of (field p "key"); cp_kspan = lspan (field p "key"); cp_value = ve; cp_vspan = span_of (field p "vspan") })
              pairs)
        | _ -> None) in
    TDefine (ident_of id, lspan id, cfg)
  | "if" -> TIf (lexpr_of (field j "value"), blk (field j "if"), oblk (field j "else"))
  | "import" ->
    if depth > 6 then TUnsupported else begin
      let a = field j "args" in
      let as_of x = (match x with Null -> None | x -> Some (split_path (to_str (field (field x "path") "d")), lspan (field x "path"))) in
      let args = (match field a "all" with
          | Null ->
            ImportSpecific (List.map (fun it ->
                ((split_path (to_str (field (field it "path") "d")),
                  (match as_of (field it "as") with Some (p, _) -> Some p | None -> None)),
                 span_of (field it "span"))) (to_list (field a "specific")))
          | star -> ImportAll (lspan star, as_of (field a "as"))) in
      let file = (match field files (to_str (field j "resolved")) with
          | Null -> None
          | f -> Some (List.map (conv_token files (depth + 1)) (to_list (field f "tokens")))) in
      TImport (args, text_of_string (to_str (field j "scope")), oblk (field j "block"), file)
    end
  | "instr" ->
    (match mnemonic_of (to_str (field j "mn")) with
     | None -> TUnsupported
     | Some m ->
       (match field j "operand" with
        | Null -> TInstr (m, lspan (field j "mnl"), None)
        | op ->
          let sfx = (match field op "suffix" with Null -> None | s -> Some (String.lowercase_ascii (to_str (field s "reg")))) in
          (match form_of (to_str (field op "am")) sfx with
           | Some f -> TInstr (m, lspan (field j "mnl"), Some (lexpr_of (field op "expr"), f))
           | None -> TUnsupported)))
  | "label" -> TLabel (ident_of (field j "id"), lspan (field j "id"), oblk (field j "block"))
  | "loop" -> TLoop (lexpr_of (field j "expr"), text_of_string (to_str (field j "scope")), blk (field j "block"))
  | "macrodef" ->
    TMacroDef (ident_of (field j "id"), lspan (field j "id"),
               List.map (fun a -> (ident_of (field a "id"), lspan (field a "id"))) (to_list (field j "args")), blk (field j "block"))
  | "invoke" -> TInvoke (ident_of (field j "id"), lspan (field j "id"), List.map (fun a -> lexpr_of (field a "e")) (to_list (field j "args")))
  | "pc" -> TPc (lexpr_of (field j "value"))
  | "segment" -> TSegment (lexpr_of (field j "id"), oblk (field j "block"))
  | "test" -> TTest (lexpr_of (field j "id"), blk (field j "block"))
  | "text" ->
    let enc = (match field j "encoding" with Null -> EncAscii | Str s when String.lowercase_ascii s = "ascii" -> EncAscii | _ -> EncOther) in
    TText (enc, lexpr_of (field j "text"))
  | "vardef" -> TVarDef ((if to_str (field j "ty") = "var" then VVar else VConst), ident_of (field j "id"), lspan (field j "id"), lexpr_of (field j "value"))
  | "file" -> TUnsupported
  | _ -> TNop

let tokens_of_ast (ast : json) : token list =
  let files = field ast "files" in
  let main = field files (to_str (field ast "main")) in
  List.map (conv_token files 0) (to_list (field main "tokens"))

(* ---------- results ---------- *)
let hex_of (bytes : n list) : string =
  let b = Buffer.create 64 in
  List.iter (fun x -> Buffer.add_string b (Printf.sprintf "%02x" (small_of_z (Z.of_N x) land 255))) bytes;
  Buffer.contents b

let everr_name = function
  | ErrStrOp _ -> "strop" | ErrUnknownFunction _ -> "unknown_function" | ErrArgCount -> "arg_count" | ErrInterpolate -> "interpolate"
  | ErrOverflow _ -> "overflow" | ErrNegOverflow -> "neg_overflow" | ErrLiteral -> "literal" | ErrMixedOp _ -> "mixedop"
let dkind_name = function
  | DRedefine -> "redefine" | DSegmentRange -> "segment_range" | DUnknownDefinition -> "unknown_definition"
  | DFieldNotAllowed -> "field_not_allowed" | DMissingFields -> "missing_fields" | DConfigKey -> "config_key"
  | DBranchTooFar -> "branch_too_far" | DInvalidInstruction -> "invalid_instruction" | DUnknownIdentifier -> "unknown_identifier"
  | DNotInteger -> "not_integer" | DNotString -> "not_string" | DEval e -> "eval:" ^ everr_name e | DImportDefined -> "import_defined" | DAlign -> "align"
  | DInvalidName -> "invalid_name" | DNotConverged -> "not_converged" | DPcRange -> "pc_range" | DSegmentHasCode -> "segment_has_code"
let fault_name = function FFuel -> "fuel" | FPanic -> "panic" | FUnsupported -> "unsupported" | FDiverge -> "diverge"
let symtype_name = function
  | TyLabel -> "label" | TyTestCase -> "test" | TyMacroArgument -> "macroarg" | TyConstant -> "const" | TyVariable -> "var"

let jdiag (d : diag) : json =
  Obj [ ("kind", Str (dkind_name d.d_kind)); ("span", jopt jspan d.d_span); ("path", Str (string_of_path d.d_path)) ]

let jevent (e : event) : json =
  match e with
  | EvSym (nx, id, d, ty) ->
    Obj [ ("ev", Str "sym"); ("scope", jnat nx); ("id", Str (string_of_path id)); ("ty", Str (symtype_name ty));
          ("v", (match d with SDNum z -> jz z | SDStr s -> Str ("s:" ^ string_of_text s) | SDPlaceholder -> Str "placeholder" | SDMacro _ -> Str "macro")) ]
  | EvEval (nx, pc, _, v) ->
    Obj [ ("ev", Str "eval"); ("scope", jnat nx); ("pc", jopt jz pc);
          ("v", (match v with Some (SNum z) -> jz z | Some (SStr s) -> Str ("s:" ^ string_of_text s) | None -> Null)) ]
  | EvEmit (seg, pc, tp, bytes) ->
    Obj [ ("ev", Str "emit"); ("seg", Str (string_of_text seg)); ("pc", jz pc); ("target", jz tp); ("bytes", Str (hex_of bytes)) ]
  | EvSegNew seg -> Obj [ ("ev", Str "segnew"); ("seg", Str (string_of_text seg)) ]

let jctx (c : ctx) (with_trace : bool) : (string * json) list =
  let segs = List.map (fun ((name, (lo, hi)), data) ->
      Obj [ ("name", Str (string_of_text name)); ("start", jz lo); ("end", jz hi); ("data", Str (hex_of data)) ]) (segment_image c) in
  let segpcs = List.map (fun (name, s) -> Obj [ ("name", Str (string_of_text name)); ("pc", jz s.g_pc) ]) c.segments in
  let syms = List.map (fun ((p, _), s) ->
      Arr [ Str (string_of_path p); Str (symtype_name s.s_ty);
            (match s.s_data with SDNum z -> jz z | SDStr t -> Str ("s:" ^ string_of_text t) | SDPlaceholder -> Str "placeholder" | SDMacro _ -> Str "macro") ])
      (all c.symbols) in
  [ ("passes", jint (int_of_nat c.pass_idx + 1)); ("segments", Arr segs); ("segment_pcs", Arr segpcs); ("symbols", Arr syms);
    ("vice", Arr (List.map (fun (p, v) -> Arr [ Str (string_of_path p); jz v ]) (vice_symbols c)));
    ("var_changes", jnat c.g_vch); ("nodes", jint (List.length c.symbols.nodes));
    (* symbols the last pass did not write (their pass stamp is older): values left over from an earlier pass *)
    ("stale", Arr (List.filter_map (fun ((p, _), s) ->
         if int_of_nat s.s_pass < int_of_nat c.pass_idx && s.s_span <> None then Some (Arr [ Str (string_of_path p); Str (symtype_name s.s_ty) ]) else None)
         (all c.symbols))) ]
  @ (if with_trace then [ ("trace", Arr (List.rev_map jevent c.g_trace)) ] else [])

let options_of (req : json) : options =
  let pc = (match field req "pc" with Null -> default_options.opt_pc | j -> to_z j) in
  let consts = (match field req "constants" with Obj l -> List.map (fun (k, v) -> (text_of_string k, to_z v)) l | _ -> []) in
  { opt_pc = pc; opt_constants = consts }

let cmd_codegen (req : json) : json =
  try
    let toks = tokens_of_ast (field req "ast") in
    let passes = (match field req "passes" with Null -> small_of_z max_iterations | j -> to_int j) in
    let fuel = (match field req "fuel" with Null -> 3000 | j -> to_int j) in
    let with_trace = to_bool (field req "trace") in
    (match codegen (nat_of_int passes) (nat_of_int fuel) (options_of req) toks with
     | Done c -> Obj (("status", Str "done") :: ("errors", Arr []) :: jctx c with_trace)
     | Failed (errs, c) -> Obj (("status", Str "failed") :: ("errors", Arr (List.map jdiag errs)) :: jctx c with_trace)
     | Aborted f -> Obj [ ("status", Str "aborted"); ("fault", Str (fault_name f)) ])
  with Unsupported s -> Obj [ ("status", Str "aborted"); ("fault", Str "unsupported"); ("detail", Str s) ]

(* ---------- oracle (b): static re-derivation under the implementation's final symbols ---------- *)
let symdata_of (j : json) : symdata =
  match j with
  | Num _ -> DNum (to_z j)
  | Str "placeholder" -> DPlaceholder
  | Str "macro" -> DMacro
  | Str s when String.length s >= 2 && String.sub s 0 2 = "s:" -> DStr (text_of_string (String.sub s 2 (String.length s - 2)))
  | _ -> DPlaceholder

let lerr_json (e : lerr) : json =
  match e with
  | LUnresolved sp -> Obj [ ("k", Str "unresolved"); ("span", jspan sp) ]
  | LSymbol (p, expected, actual) ->
    let sd = function DNum z -> jz z | DStr t -> Str ("s:" ^ string_of_text t) | DPlaceholder -> Str "placeholder" | DMacro -> Str "macro" in
    Obj [ ("k", Str "symbol"); ("path", Str (string_of_path p)); ("expected", sd expected); ("actual", jopt sd actual) ]
  | LError (k, sp) -> Obj [ ("k", Str "error"); ("code", jnat k); ("span", jspan sp) ]
  | LNoMacro name -> Obj [ ("k", Str "no_macro"); ("name", Str (string_of_text name)) ]

let cmd_relayout (req : json) : json =
  try
    let toks = tokens_of_ast (field req "ast") in
    let m = List.map (fun e -> match to_list e with
        | p :: _ :: v :: _ -> (split_path (to_str p), symdata_of v)
        | _ -> ([], DPlaceholder)) (to_list (field req "symbols")) in
    let segs = List.map (fun s ->
        let ip = to_z (field s "initial_pc") in
        (text_of_string (to_str (field s "name")), { ss_pc = ip; ss_initial = ip; ss_target = to_z (field s "target_address") }))
        (to_list (field req "segments")) in
    let cur = (match segs with (n, _) :: _ -> Some n | [] -> None) in
    (match relayout (nat_of_int 4) (nat_of_int 3000) m toks segs cur with
     | Inr w -> Obj [ ("status", Str (if int_of_nat w = 0 then "fuel" else "unsupported")) ]
     | Inl None -> Obj [ ("status", Str "none") ]
     | Inl (Some r) ->
       let seg_json (name, ws) =
         (match ws with
          | [] -> Obj [ ("name", Str (string_of_text name)); ("empty", Bool true) ]
          | (st0, b0) :: _ ->
            let lo = List.fold_left (fun a (st, _) -> Z.min a st) st0 ws in
            let hi = List.fold_left (fun a (st, bs) -> Z.max a (Z.add st (z_of_small (List.length bs)))) (Z.add st0 (z_of_small (List.length b0))) ws in
            Obj [ ("name", Str (string_of_text name)); ("empty", Bool false); ("start", jz lo); ("end", jz hi);
                  ("data", Str (hex_of (bytes_from ws lo (Z.to_nat (Z.sub hi lo))))) ]) in
       Obj [ ("status", Str "ok"); ("segments", Arr (List.map seg_json r.lr_segments)); ("bad", Arr (List.map lerr_json r.lr_bad));
             ("statements", Arr (List.rev_map (fun ((sp, addr), len) -> Arr [ jspan sp; jz addr; jnat len ]) r.lr_addrs)) ])
  with Unsupported s -> Obj [ ("status", Str "unsupported"); ("detail", Str s) ]

(* ---------- C07: expansion by hand, printed as source text ---------- *)
let fsyms_of (req : json) : (n list list * symdata) list =
  List.map (fun e -> match to_list e with
      | p :: _ :: v :: _ -> (split_path (to_str p), symdata_of v)
      | _ -> ([], DPlaceholder)) (to_list (field req "symbols"))

let cmd_expand (req : json) : json =
  try
    let toks = tokens_of_ast (field req "ast") in
    let m = fsyms_of req in
    let b k = to_bool (field req k) in
    let o = { x_loops = b "loops"; x_ifs = b "ifs"; x_macros = b "macros"; x_consts = b "consts"; x_imports = b "imports" } in
    (match expand o (nat_of_int 400) m toks with
     | Inr w -> Obj [ ("status", Str (if int_of_nat w = 0 then "fuel" else "not_expandable")) ]
     | Inl None -> Obj [ ("status", Str "none") ]
     | Inl (Some ts) -> Obj [ ("status", Str "ok"); ("text", Str (string_of_text (print_tokens (fun m -> text_of_string (mnemonic_name m)) (nat_of_int 400) ts))) ])
  with Unsupported s -> Obj [ ("status", Str "unsupported"); ("detail", Str s) ]

let cmd_print (req : json) : json =
  try Obj [ ("status", Str "ok"); ("text", Str (string_of_text (print_tokens (fun m -> text_of_string (mnemonic_name m)) (nat_of_int 400) (tokens_of_ast (field req "ast"))))) ]
  with Unsupported s -> Obj [ ("status", Str "unsupported"); ("detail", Str s) ]

let () = main_loop [ ("codegen", cmd_codegen); ("relayout", cmd_relayout); ("expand", cmd_expand); ("print", cmd_print) ]

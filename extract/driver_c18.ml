(* mosmodel_c18: line-protocol driver around the extracted C18 runner model, machine and verdict spec.
   cmd "run": {fuel, banks: [{name, start, data: [bytes]}],
               test: {name, bank, pc, elements: [{kind: "assert"|"trace", exprs: [display text...], message: str|null,
                      line, column, snapshot: {pc, scope: [str...], symbols: [[dotted path, value]...]}}]},
               steps: bool}
        -> model: verdict of TestRun.run (+ per-instruction machine states and final RAM when steps is set),
           spec: verdict of TestSpec.spec_test, visits: how often each assertion's pc is reached
   cmd "stepping": same input + {ops: ["in"|"over"|"out"...]} -> machine state after each step_over/step_out/execute
   cmd "report": {results: [{name, failed: bool}]} -> test_command / process_exit_status *)

let text_of_string (s : string) : n list =
  List.init (String.length s) (fun i -> Z.to_N (z_of_small (Char.code s.[i])))
let string_of_text (t : n list) : string =
  let b = Buffer.create 16 in
  List.iter (fun c -> let k = small_of_z (Z.of_N c) in
              if k < 256 then Buffer.add_char b (Char.chr k) else Buffer.add_char b '?') t;
  Buffer.contents b
let jstr (t : n list) : json = Str (string_of_text t)

let path_of_string (s : string) : n list list =
  if s = "" then [] else List.map text_of_string (String.split_on_char '.' s)

let symdata_of (j : json) : symdata option =
  match j with
  | Num _ -> Some (DNum (to_z j))
  | Str s when String.length s >= 2 && String.sub s 0 2 = "s:" -> Some (DStr (text_of_string (String.sub s 2 (String.length s - 2))))
  | Str "placeholder" -> Some DPlaceholder
  | Str "macro" -> Some DMacro
  | _ -> None

let snapshot_of (j : json) : snapshot =
  let syms = List.filter_map (fun e ->
      match to_list e with
      | [ p; v ] -> (match symdata_of v with Some d -> Some (path_of_string (to_str p), d) | None -> None)
      | _ -> None) (to_list (field j "symbols")) in
  { s_pc = to_z (field j "pc"); s_scope = List.map (fun s -> text_of_string (to_str s)) (to_list (field j "scope")); s_syms = syms }

exception Bad_expr of string

let expr_of_text (s : string) : expr =
  match parse_expression (text_of_string s) with
  | Some (e, rest) ->
    if List.for_all (fun c -> let k = small_of_z (Z.of_N c) in k = 32 || k = 9) rest then e
    else raise (Bad_expr s)
  | None -> raise (Bad_expr s)

let element_of (j : json) : test_element =
  let snap = snapshot_of (field j "snapshot") in
  let exprs = List.map to_str (to_list (field j "exprs")) in
  match to_str (field j "kind") with
  | "assert" ->
    let s = (match exprs with [ s ] -> s | _ -> failwith "assert needs one expression") in
    Assertion { a_expr = expr_of_text s; a_text = text_of_string s; a_snap = snap;
                a_msg = (match field j "message" with Str m -> Some (text_of_string m) | _ -> None);
                a_loc = { l_line = to_z (field j "line"); l_col = to_z (field j "column") } }
  | _ -> Trace { t_exprs = List.map (fun s -> (expr_of_text s, text_of_string s)) exprs; t_snap = snap }

let bank_of (j : json) : bank =
  { b_name = text_of_string (to_str (field j "name")); b_start = to_z (field j "start");
    b_data = List.map to_n (to_list (field j "data")) }

let test_of (j : json) : test_case =
  { tc_name = text_of_string (to_str (field j "name")); tc_bank = text_of_string (to_str (field j "bank"));
    tc_pc = to_z (field j "pc"); tc_elements = List.map element_of (to_list (field j "elements")) }

let jcpu (c : cpu) : json = Arr [ jz c.rPC; jz c.rA; jz c.rX; jz c.rY; jz c.rSP; jz (status_byte c.rP) ]

let jram (m : ram) : json =
  let tbl = Hashtbl.create 64 in
  List.iteri (fun i _ -> Hashtbl.replace tbl (small_of_z m.ram_base + i) ()) m.ram_image;
  List.iter (fun (a, _) -> Hashtbl.replace tbl (small_of_z a) ()) m.ram_over;
  let addrs = List.sort compare (Hashtbl.fold (fun a () acc -> a :: acc) tbl []) in
  Arr (List.filter_map (fun a -> let v = ram_read m (z_of_small a) in
                         if v = Z0 then None else Some (Arr [ jint a; jz v ])) addrs)

let jfailure (f : test_failure) : (string * json) list =
  [ ("verdict", Str "failed"); ("line", jz f.f_loc.l_line); ("column", jz f.f_loc.l_col); ("message", jstr f.f_message);
    ("cpu", jcpu f.f_cpu); ("cpu_details", jstr (format_cpu_details f.f_cpu)); ("traces", jlist jstr f.f_traces) ]

let jverdict (v : verdict) : (string * json) list =
  match v with
  | Passed -> [ ("verdict", Str "passed") ]
  | Failed f -> jfailure f
  | VPanic -> [ ("verdict", Str "panic") ]
  | VOutOfSubset -> [ ("verdict", Str "out_of_subset") ]
  | VOutOfFuel -> [ ("verdict", Str "out_of_fuel") ]

let jsverdict (v : sverdict) : json =
  match v with
  | SPass -> Obj [ ("verdict", Str "passed") ]
  | SFail (l, m, c) -> Obj [ ("verdict", Str "failed"); ("line", jz l.l_line); ("column", jz l.l_col); ("message", jstr m); ("cpu", jcpu c) ]
  | SAbort -> Obj [ ("verdict", Str "panic") ]
  | SOutOfSubset -> Obj [ ("verdict", Str "out_of_subset") ]
  | SOutOfFuel -> Obj [ ("verdict", Str "out_of_fuel") ]

(* the per-instruction log: the loop of TestRunner::run unrolled by the driver over the extracted execute_instruction *)
let log_run (fuel : int) (r0 : runner) : json list * runner * string =
  let rec go k r acc =
    if k = 0 then (List.rev acc, r, "out_of_fuel")
    else
      let acc = jcpu r.r_cpu :: acc in
      match execute_instruction r with
      | Running r' -> go (k - 1) r' acc
      | TestFailed _ -> (List.rev acc, r, "failed")
      | TestSuccess r' -> (List.rev acc, r', "passed")
      | ExecPanic -> (List.rev acc, r, "panic")
      | OutOfSubset -> (List.rev acc, r, "out_of_subset") in
  go fuel r0 []

let h_run (req : json) : json =
  try
    let fuel = to_int (field req "fuel") in
    let banks = List.map bank_of (to_list (field req "banks")) in
    let t = test_of (field req "test") in
    let nfuel = nat_of_int fuel in
    let v = run_test nfuel banks t in
    let model = jverdict v in
    let model =
      if to_bool (field req "steps") then
        (match new_runner banks t with
         | Some r0 ->
           let (steps, rf, how) = log_run fuel r0 in
           model @ [ ("steps", Arr steps); ("ram", jram rf.r_cpu.rM); ("log_verdict", Str how);
                     ("all_traces", jlist jstr rf.formatted_traces) ]
         | None -> model)
      else model in
    let spec = spec_test nfuel banks t in
    let visits_json =
      (match find_bank banks t.tc_bank with
       | Some b ->
         let c0 = cpu_init (Z.modulo t.tc_pc (z_of_small 65536)) (load_program b.b_start b.b_data) in
         jlist (fun e -> match e with
             | Assertion a -> jnat (visits nfuel (s_pc16 a.a_snap) c0)
             | Trace tr -> jnat (visits nfuel (s_pc16 tr.t_snap) c0)) t.tc_elements
       | None -> Null) in
    Obj [ ("model", Obj model); ("spec", jsverdict spec); ("view_agrees", Bool (v = VPanic || view v = spec)); ("visits", visits_json) ]
  with Bad_expr s -> Obj [ ("bad_expr", Str s) ]

let h_stepping (req : json) : json =
  try
    let fuel = nat_of_int (to_int (field req "fuel")) in
    let banks = List.map bank_of (to_list (field req "banks")) in
    let t = test_of (field req "test") in
    match new_runner banks t with
    | None -> Obj [ ("error", Str "no bank") ]
    | Some r0 ->
      let rec go r ops acc =
        match ops with
        | [] -> List.rev acc
        | op :: rest ->
          let x = (match to_str op with
              | "over" -> step_over fuel r
              | "out" -> step_out fuel r
              | _ -> Some (execute_instruction r)) in
          (match x with
           | Some (Running r') -> go r' rest (Obj [ ("state", Str "running"); ("cpu", jcpu r'.r_cpu); ("call_depth", jz r'.call_depth) ] :: acc)
           | Some (TestSuccess r') -> List.rev (Obj [ ("state", Str "passed"); ("cpu", jcpu r'.r_cpu); ("call_depth", jz r'.call_depth) ] :: acc)
           | Some (TestFailed f) -> List.rev (Obj [ ("state", Str "failed"); ("cpu", jcpu f.f_cpu); ("call_depth", jz r.call_depth) ] :: acc)
           | Some ExecPanic -> List.rev (Obj [ ("state", Str "panic") ] :: acc)
           | Some OutOfSubset -> List.rev (Obj [ ("state", Str "out_of_subset") ] :: acc)
           | None -> List.rev (Obj [ ("state", Str "out_of_fuel") ] :: acc)) in
      Obj [ ("states", Arr (go r0 (to_list (field req "ops")) [])) ]
  with Bad_expr s -> Obj [ ("bad_expr", Str s) ]

let dummy_failure : test_failure =
  { f_message = []; f_loc = { l_line = Z0; l_col = Z0 };
    f_cpu = cpu_init Z0 (load_program Z0 []); f_traces = [] }

let h_report (req : json) : json =
  let results = List.map (fun j -> (text_of_string (to_str (field j "name")),
                                    if to_bool (field j "failed") then Failed dummy_failure else Passed))
      (to_list (field req "results")) in
  let rp = test_command results in
  Obj [ ("lines", jlist (fun (n, ok) -> Arr [ jstr n; Bool ok ]) rp.rp_lines);
        ("failed", jlist (fun (n, _) -> jstr n) rp.rp_failed);
        ("num_passed", jz rp.rp_num_passed); ("num_failed", jz rp.rp_num_failed);
        ("exit_code", jz rp.rp_exit_code); ("process_exit", jz (process_exit_status rp)) ]

let () = main_loop [ ("run", h_run); ("stepping", h_stepping); ("report", h_report) ]

(* mosmodel_c17: line-protocol driver around the extracted C17 model and spec.
   cmd "edits": {chunks: [[kind, text]...] (kind "=", "-", "+"; text = array of scalars), old, new, error: n, file: bool}
        -> the model's get_text_edits with the diff oracle answering `chunks`, the chunk-wise edits, old_of/new_of,
           and the handler's answer for `error` diagnostics
   cmd "apply": {doc: text, edits: [{sl,sc,el,ec,new}]} -> the spec's apply_edits (null = not in range / not ordered),
           the resolved offsets, and the document class has_cr *)

let chunk_of (j : json) : chunk =
  match to_list j with
  | [ k; t ] ->
    (match to_str k with
     | "=" -> Equal (text_of t)
     | "-" -> Delete (text_of t)
     | "+" -> Insert (text_of t)
     | s -> failwith ("chunk kind " ^ s))
  | _ -> failwith "chunk"

let jedit (e : edit) : json =
  Obj [ ("sl", jnat (fst e.e_start)); ("sc", jnat (snd e.e_start)); ("el", jnat (fst e.e_end)); ("ec", jnat (snd e.e_end));
        ("new", jtext e.e_new) ]

let natf (j : json) (k : string) : nat = nat_of_int (to_int (field j k))

let edit_of (j : json) : edit =
  { e_start = (natf j "sl", natf j "sc"); e_end = (natf j "el", natf j "ec"); e_new = text_of (field j "new") }

let rec units (k : int) : unit list = if k <= 0 then [] else () :: units (k - 1)

let h_edits (req : json) : json =
  let cs = List.map chunk_of (to_list (field req "chunks")) in
  let old = text_of (field req "old") and nw = text_of (field req "new") in
  let diff = fun _ _ -> cs in
  let fmt = fun _ -> nw in
  let error = units (to_int (field req "error")) in
  let file = match field req "file" with Bool false -> None | _ -> Some old in
  Obj [ ("edits", jlist jedit (get_text_edits diff old nw));
        ("chunk_edits", jlist jedit (gte rk_new cs));
        ("old_of", jtext (old_of cs)); ("new_of", jtext (new_of cs));
        ("handler", jopt (jlist jedit) (handle_formatting diff fmt error (Some file)));
        ("on_type", jopt (jlist jedit) (handle_on_type_formatting diff fmt (O, O) [] error (Some file))) ]

let h_apply (req : json) : json =
  let doc = text_of (field req "doc") in
  let es = List.map edit_of (to_list (field req "edits")) in
  Obj [ ("result", jopt jtext (apply_edits doc es));
        ("resolved", jopt (jlist (fun ((s, t), _) -> Arr [ jnat s; jnat t ])) (resolve_all doc es));
        ("has_cr", Bool (has_cr doc)) ]

let () = main_loop [ ("edits", h_edits); ("apply", h_apply) ]

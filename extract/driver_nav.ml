(* driver for the extracted navigation model (unit "nav"): symbol graph, analysis, handlers.
   Identifiers travel as strings (ASCII), nodes / lines / columns / file numbers as small integers. *)

let ident_of_string (s : string) : n list = List.init (String.length s) (fun i -> to_n (Num (string_of_int (Char.code s.[i]))))
let string_of_ident (l : n list) : string = String.concat "" (List.map (fun c -> String.make 1 (Char.chr (small_of_z (Z.of_N c)))) l)
let split_path (s : string) : n list list = if s = "" then [] else List.map ident_of_string (String.split_on_char '.' s)
let join_path (p : n list list) : string = String.concat "." (List.map string_of_ident p)
let nat_of j = nat_of_int (to_int j)

let graph_of (j : json) : edge list =
  List.map (fun e -> match to_list e with
      | [s; l; d] -> { e_src = nat_of s; e_lbl = ident_of_string (to_str l); e_dst = nat_of d }
      | _ -> failwith "edge") (to_list j)

let jstep = function
  | Symbol n -> Arr [Str "symbol"; jnat n]
  | Super n -> Arr [Str "super"; jnat n]
let step_of j = match to_list j with
  | [Str "symbol"; n] -> Symbol (nat_of n)
  | [Str "super"; n] -> Super (nat_of n)
  | _ -> failwith "step"

let span_of j = match to_list j with
  | [f; l0; c0; l1; c1] -> { s_file = nat_of f; s_l0 = nat_of l0; s_c0 = nat_of c0; s_l1 = nat_of l1; s_c1 = nat_of c1 }
  | _ -> failwith "span"
let jspan s = Arr [jnat s.s_file; jnat s.s_l0; jnat s.s_c0; jnat s.s_l1; jnat s.s_c1]
let loc_of j = match to_list j with
  | [sc; sp] -> { parent_scope = nat_of sc; dl_span = span_of sp }
  | _ -> failwith "loc"
let jloc l = Arr [jnat l.parent_scope; jspan l.dl_span]
let ty_of j = match to_list j with
  | [Str "sym"; n] -> DtSymbol (nat_of n)
  | [Str "file"; n] -> DtFilename (nat_of n)
  | [Str "una"; n] -> DtUnassembled (nat_of n)
  | _ -> failwith "ty"
let jty = function DtSymbol n -> Arr [Str "sym"; jnat n] | DtFilename f -> Arr [Str "file"; jnat f] | DtUnassembled k -> Arr [Str "una"; jnat k]
let analysis_of j =
  List.map (fun d -> (ty_of (field d "ty"),
                      { location = to_opt loc_of (field d "location"); usages = List.map loc_of (to_list (field d "usages")) }))
    (to_list j)

let fuel_of req = match field req "fuel" with Null -> nat_of_int 200 | j -> nat_of j

(* {"cmd":"qts","graph":[..],"fuel":n,"queries":[[scope,"a.b"],..]} *)
let cmd_qts req =
  let g = graph_of (field req "graph") in
  let fuel = fuel_of req in
  Obj [ ("answers", Arr (List.map (fun q ->
      match to_list q with
      | [sc; p] ->
        let scope = nat_of sc and path = split_path (to_str p) in
        (match query_traversal_steps fuel g scope path with
         | None -> Obj [ ("out_of_fuel", Bool true) ]
         | Some steps ->
           let back incl = jopt (fun p -> Str (join_path p)) (query_steps_to_path g scope steps incl) in
           Obj [ ("steps", Arr (List.map jstep steps));
                 ("query", jopt jnat (last_symbol steps));
                 ("path_super", back true); ("path_nosuper", back false) ])
      | _ -> Null) (to_list (field req "queries")))) ]

(* {"cmd":"use_pairs","graph":..,"uses":[[scope,"a.b",[file,l0,c0,l1,c1]],..]} : what add_symbol_usage records *)
let cmd_use_pairs req =
  let g = graph_of (field req "graph") in
  let fuel = fuel_of req in
  Obj [ ("answers", Arr (List.map (fun q ->
      match to_list q with
      | [sc; p; sp] ->
        let pairs = use_pairs fuel g (nat_of sc) (split_path (to_str p)) (span_of sp) in
        Arr (List.map (fun (ty, l) -> Arr [jty ty; jloc l]) pairs)
      | _ -> Null) (to_list (field req "uses")))) ]

(* {"cmd":"nav","analysis":[..],"positions":[[file,line,col],..]} *)
let cmd_nav req =
  let a = analysis_of (field req "analysis") in
  Obj [ ("answers", Arr (List.map (fun q ->
      match to_list q with
      | [f; l; c] ->
        let f = nat_of f and l = nat_of l and c = nat_of c in
        Obj [ ("found", Arr (List.map (fun (ty, _) -> jty ty) (find_ a f l c)));
              ("goto", jopt jspan (go_to_definition a f l c));
              ("refs_t", Arr (List.map jspan (find_references a true f l c)));
              ("refs_f", Arr (List.map jspan (find_references a false f l c)));
              ("highlight", Arr (List.map jspan (document_highlight a f l c))) ]
      | _ -> Null) (to_list (field req "positions")))) ]

(* the names in the text of a location: {"names":[[span,[[offset,"id"],..]],..]} *)
let names_of req =
  let tbl = List.map (fun e -> match to_list e with
      | [sp; ns] -> (span_of sp, List.map (fun n -> match to_list n with [o; id] -> (nat_of o, ident_of_string (to_str id)) | _ -> failwith "name") (to_list ns))
      | _ -> failwith "names") (to_list (field req "names")) in
  fun (s : span) -> match List.find_opt (fun (s', _) -> s' = s) tbl with Some (_, l) -> l | None -> []

(* {"cmd":"rename","analysis":..,"names":..,"requests":[[file,line,col,"new"],..]} *)
let cmd_rename req =
  let a = analysis_of (field req "analysis") in
  let names = names_of req in
  Obj [ ("answers", Arr (List.map (fun q ->
      match to_list q with
      | [f; l; c; nn] ->
        (match rename_handler a names (nat_of f) (nat_of l) (nat_of c) (ident_of_string (to_str nn)) with
         | RenNone -> Null
         | RenEdits (_, edits) -> Arr (List.map (fun e -> Arr [jspan e.ed_span; Str (string_of_ident e.ed_text)]) edits))
      | _ -> Null) (to_list (field req "requests")))) ]

(* {"cmd":"classify_rename", analysis, "requests":[[file,line,col,"id under cursor"],..]} -> does prepare_rename offer *)
let cmd_classify req =
  let a = analysis_of (field req "analysis") in
  Obj [ ("answers", Arr (List.map (fun q ->
      match to_list q with
      | [f; l; c; id] ->
        Obj [ ("prepare", Bool (prepare_rename a (ident_of_string (to_str id)) (nat_of f) (nat_of l) (nat_of c))) ]
      | _ -> Null) (to_list (field req "requests")))) ]

let () = main_loop [ ("classify_rename", cmd_classify); ("rename", cmd_rename); ("qts", cmd_qts); ("use_pairs", cmd_use_pairs); ("nav", cmd_nav) ]

(* driver for the extracted C20 model: which outcomes can a scenario have (over all interleavings)? *)

let action_of (j : json) : action =
  match to_str j with
  | "shutdown" -> LspShutdown | "exit" -> LspExit | "close" -> LspClose | "disconnect" -> DapDisconnect | "connect" -> DapConnect
  | s -> failwith ("action " ^ s)
let action_name = function LspShutdown -> "shutdown" | LspExit -> "exit" | LspClose -> "close" | DapDisconnect -> "disconnect" | DapConnect -> "connect"
let machine_of (j : json) : machine =
  match to_str j with "running" -> MachRunning | "paused" -> MachPaused | _ -> MachNone
let variant_of (j : json) : variant =
  match to_str j with
  | "pinned" -> v_pinned | "take_only" -> v_take_only | "take_drop" -> v_take_drop | "take_drop_wake" -> v_take_drop_wake
  | "first_repair" -> v_first_repair | "repaired" -> v_repaired | "rendezvous" -> v_rendezvous | _ -> life_variant

let outcome_of (s : state) : string =
  match s.st_main with
  | MExited c -> (match int_of_nat c with 0 -> "exit0" | 1 -> "exit1" | 101 -> "panic101" | k -> "exit" ^ string_of_int k)
  | _ -> "hang"

(* all terminal outcomes reachable from s, and the longest path; memoised on the (structural) state *)
let outcomes (v : variant) (s0 : state) : string list * int * int =
  let seen : (state, (string list * int)) Hashtbl.t = Hashtbl.create 997 in
  let rec go (s : state) : string list * int =
    match Hashtbl.find_opt seen s with
    | Some r -> r
    | None ->
      let r =
        match step v s with
        | [] -> ([ outcome_of s ], 0)
        | l ->
          List.fold_left (fun (acc, d) s' ->
              let (o, d') = go s' in
              (List.sort_uniq compare (o @ acc), max d (d' + 1))) ([], 0) l in
      Hashtbl.replace seen s r; r in
  let (o, d) = go s0 in
  (o, d, Hashtbl.length seen)

let jbool b = Bool b
let h_variant (_ : json) : json =
  let v = life_variant in
  Obj [ ("unwrap_ctx", jbool v.v_unwrap_ctx); ("conn_dropped_before_join", jbool v.v_conn_dropped_before_join);
        ("join_wakes", jbool v.v_join_wakes); ("select_completes", jbool v.v_select_completes);
        ("register_before_accept", jbool v.v_register_before_accept); ("join_tolerates_dead", jbool v.v_join_tolerates_dead);
        ("recovers_poison", jbool v.v_recovers_poison); ("handler_rendezvous", jbool v.v_handler_rendezvous) ]

let h_outcomes (req : json) : json =
  let script = List.map action_of (to_list (field req "script")) in
  let s0 = match to_str (field req "dead") with
    | "dead" -> initial_dead false script
    | "dead_poisoned" -> initial_dead true script
    | "launch_in_flight" -> initial_launch script
    | _ -> initial (to_bool (field req "attached")) (machine_of (field req "machine")) script in
  let (o, d, n) = outcomes (variant_of (field req "variant")) s0 in
  Obj [ ("outcomes", Arr (List.map (fun x -> Str x) o)); ("expect", jnat (spec_exit_code script)); ("depth", jint d); ("states", jint n) ]

let h_scripts (_ : json) : json =
  Arr (List.map (fun sc -> Arr (List.map (fun a -> Str (action_name a)) sc)) all_scripts)

let () = main_loop [ ("variant", h_variant); ("outcomes", h_outcomes); ("scripts", h_scripts) ]

(* driver for the extracted parser model (C05 / C08): dumps the model's token tree in the format of
   harness/src/dump.rs (what Rust's AST keeps; ghost data is forgotten here exactly as Rust forgets it). *)

let utf8_of_text (t : n list) : string =
  let b = Buffer.create 16 in
  List.iter (fun c ->
      let c = small_of_z (Z.of_N c) in
      if c < 0x80 then Buffer.add_char b (Char.chr c)
      else if c < 0x800 then (Buffer.add_char b (Char.chr (0xC0 lor (c lsr 6))); Buffer.add_char b (Char.chr (0x80 lor (c land 0x3F))))
      else if c < 0x10000 then (Buffer.add_char b (Char.chr (0xE0 lor (c lsr 12)));
                                Buffer.add_char b (Char.chr (0x80 lor ((c lsr 6) land 0x3F)));
                                Buffer.add_char b (Char.chr (0x80 lor (c land 0x3F))))
      else (Buffer.add_char b (Char.chr (0xF0 lor (c lsr 18)));
            Buffer.add_char b (Char.chr (0x80 lor ((c lsr 12) land 0x3F)));
            Buffer.add_char b (Char.chr (0x80 lor ((c lsr 6) land 0x3F)));
            Buffer.add_char b (Char.chr (0x80 lor (c land 0x3F))))) t;
  Buffer.contents b

let jstr t = Str (utf8_of_text t)
let sp lo hi = Arr [ jn lo; jn hi ]

let trivia_item = function
  | TWhitespace s -> Arr [ Str "ws"; jstr s ]
  | TNewLine _ -> Arr [ Str "nl" ]
  | TCStyle (s, term) -> Arr [ Str "c"; (if term then jstr s else Str "") ]
  | TCppStyle s -> Arr [ Str "cpp"; jstr s ]
let trivia_json = function
  | None -> Null
  | Some t -> Obj [ ("span", sp t.tv_lo t.tv_hi); ("items", Arr (List.map trivia_item t.tv_items)) ]

let loc (f : 'a -> json) (l : 'a located) : json = Obj [ ("d", f l.data); ("span", sp l.lo l.hi); ("tr", trivia_json l.triv) ]
let jchar c = jstr [ c ]
let loc_char = loc jchar
let loc_text = loc jstr
let loc_kw (l : keyword located) = loc (fun k -> jstr (fst k)) l
let opt f = function Some x -> f x | None -> Null
let path_str (p : path) : json = Str (String.concat "." (List.map utf8_of_text p))
let upper s = String.uppercase_ascii s

let nmin a b = if N.leb a b then a else b
let nmax a b = if N.leb a b then b else a

let istr (i : istring) : json =
  let lo = ref i.lquote.lo and hi = ref i.lquote.hi in
  let items = List.map (fun it ->
      match it with
      | SString s -> lo := nmin !lo s.lo; hi := nmax !hi s.hi; Obj [ ("s", jstr s.data); ("span", sp s.lo s.hi) ]
      | SPath p -> lo := nmin !lo p.lo; hi := nmax !hi p.hi; Obj [ ("p", path_str p.data); ("span", sp p.lo p.hi) ]) i.items in
  Obj [ ("lquote", loc_char i.lquote); ("items", Arr items); ("span", sp !lo !hi) ]

let rec factor (f : efactor located) : json =
  let body = match f.data with
    | FCurrentPc star -> [ ("k", Str "pc"); ("star", loc_char star) ]
    | FParens (lp, inner, rp) -> [ ("k", Str "parens"); ("inner", expr inner); ("lparen", loc_char lp); ("rparen", loc_char rp) ]
    | FCall (name, lp, args, rp) ->
      [ ("k", Str "call"); ("name", loc_text name); ("lparen", loc_char lp); ("rparen", loc_char rp); ("args", args_e args) ]
    | FIdent (m, p) ->
      [ ("k", Str "id"); ("path", loc path_str p);
        ("mod", opt (fun (m : addressModifier located) -> jstr (disp_AddressModifier m.data)) m);
        ("modl", opt (loc (fun m -> jstr (disp_AddressModifier m))) m) ]
    | FNumber (ty, v) ->
      let radix = (match ty.data with NumberType_Hex -> 16 | NumberType_Dec -> 10 | NumberType_Bin -> 2) in
      [ ("k", Str "num"); ("radix", jint radix); ("digits", jstr v.data); ("ty", loc (fun t -> jstr (disp_NumberType t)) ty); ("value", loc_text v) ]
    | FString s -> [ ("k", Str "str"); ("s", istr s) ] in
  Obj (body @ [ ("span", sp f.lo f.hi); ("tr", trivia_json f.triv) ])

and expr_body (e : expr) : (string * json) list =
  match e with
  | EBinary (op, l, r) ->
    [ ("e", Str "bin"); ("op", jstr (disp_BinaryOp op.data)); ("opl", loc (fun o -> jstr (disp_BinaryOp o)) op); ("l", expr l); ("r", expr r) ]
  | EFactor (f, tnot, tneg) ->
    [ ("e", Str "fac"); ("not", Bool (tnot <> None)); ("neg", Bool (tneg <> None)); ("f", factor f);
      ("tag_not", opt loc_char tnot); ("tag_neg", opt loc_char tneg) ]

and expr (e : expr located) : json = Obj (expr_body e.data @ [ ("span", sp e.lo e.hi); ("tr", trivia_json e.triv) ])

and args_e (args : expr arg_items) : json =
  Arr (List.map (fun (a, c) -> Obj [ ("e", expr a); ("comma", opt loc_char c) ]) args)

let import_as (a : import_as option) : json =
  match a with Some (tag, p) -> Obj [ ("tag", loc_kw tag); ("path", loc path_str p) ] | None -> Null

let scope_name (k : nat) = Str ("$scope_" ^ string_of_int (int_of_nat k))

let rec token (t : token) : json =
  match t with
  | TAlign (tag, v) -> Obj [ ("t", Str "align"); ("tag", loc_kw tag); ("value", expr v) ]
  | TAssert (tag, v, m) -> Obj [ ("t", Str "assert"); ("tag", loc_kw tag); ("value", expr v); ("msg", opt istr m) ]
  | TBraces (b, k) -> Obj [ ("t", Str "braces"); ("block", block b); ("scope", scope_name k) ]
  | TConfig b -> Obj [ ("t", Str "config"); ("block", block b) ]
  | TConfigPair (key, eq, v) ->
    Obj [ ("t", Str "pair"); ("key", loc_text key); ("eq", loc_char eq); ("value", token v.data); ("vspan", sp v.lo v.hi); ("vtr", trivia_json v.triv) ]
  | TData (size, vals) ->
    let sz = (match fst size.data with DataSize_Byte -> 1 | DataSize_Word -> 2 | DataSize_Dword -> 4) in
    Obj [ ("t", Str "data"); ("size", jint sz); ("sizel", loc (fun d -> jstr (disp_DataSize (fst d))) size); ("values", args_e vals) ]
  | TDefinition (tag, id, v) -> Obj [ ("t", Str "define"); ("tag", loc_kw tag); ("id", loc_text id); ("value", opt token v) ]
  | TEof l -> Obj [ ("t", Str "eof"); ("span", sp l.lo l.hi); ("tr", trivia_json l.triv) ]
  | TError l -> Obj [ ("t", Str "error"); ("l", loc_text l) ]
  | TExpression e ->
    let (lo, hi) = (match e with
        | EFactor (f, _, _) -> (f.lo, f.hi)
        | EBinary (_, l, r) -> (nmin l.lo r.lo, nmax l.hi r.hi)) in
    Obj [ ("t", Str "expr"); ("e", Obj (expr_body e @ [ ("span", sp lo hi); ("tr", Null) ])) ]
  | TIf (tag, v, b, els) ->
    Obj [ ("t", Str "if"); ("tag", loc_kw tag); ("value", expr v); ("if", block b);
          ("tag_else", opt (fun (t, _) -> loc_kw t) els); ("else", opt (fun (_, b) -> block b) els) ]
  | TImport (tag, args, from, filename, b, k) ->
    let a = (match args with
        | ImportAll (star, a) -> Obj [ ("all", loc_char star); ("as", import_as a) ]
        | ImportSpecific l ->
          Obj [ ("specific", Arr (List.map (fun ((a : specific_import_arg located), c) ->
              Obj [ ("path", loc path_str a.data.sp_path); ("as", import_as a.data.sp_as); ("span", sp a.lo a.hi);
                    ("tr", trivia_json a.triv); ("comma", opt loc_char c) ]) l)) ]) in
    Obj [ ("t", Str "import"); ("tag", loc_kw tag); ("args", a); ("from", loc_kw from); ("filename", istr filename);
          ("block", opt block b); ("scope", scope_name k) ]
  | TFile (tag, filename) -> Obj [ ("t", Str "file"); ("tag", loc_kw tag); ("filename", istr filename) ]
  | TInstruction (mn, op) ->
    let name = utf8_of_text (fst mn.data) in
    let o = opt (fun (o : operand_t) ->
        let am = (match o.o_mode with AbsoluteOrZp -> "AbsoluteOrZp" | Immediate -> "Immediate" | Implied -> "Implied"
                                      | Indirect -> "Indirect" | OuterIndirect -> "OuterIndirect") in
        Obj [ ("expr", expr o.o_expr); ("am", Str am); ("lchar", opt loc_char o.lchar); ("rchar", opt loc_char o.rchar);
              ("suffix", opt (fun (s : register_suffix) ->
                   Obj [ ("reg", jstr (disp_IndexRegister (fst s.register.data))); ("comma", loc_char s.comma);
                         ("regl", loc (fun r -> jstr (disp_IndexRegister (fst r))) s.register) ]) o.suffix) ]) op in
    Obj [ ("t", Str "instr"); ("mn", Str (String.capitalize_ascii name)); ("mnl", loc (fun k -> Str (upper (utf8_of_text (fst k)))) mn); ("operand", o) ]
  | TLabel (id, colon, b) -> Obj [ ("t", Str "label"); ("id", loc_text id); ("colon", loc_char colon); ("block", opt block b) ]
  | TLoop (tag, k, e, b) -> Obj [ ("t", Str "loop"); ("tag", loc_kw tag); ("scope", scope_name k); ("expr", expr e); ("block", block b) ]
  | TMacroDefinition (tag, id, lp, args, rp, b) ->
    Obj [ ("t", Str "macrodef"); ("tag", loc_kw tag); ("id", loc_text id); ("lparen", loc_char lp); ("rparen", loc_char rp);
          ("args", Arr (List.map (fun (a, c) -> Obj [ ("id", loc_text a); ("comma", opt loc_char c) ]) args)); ("block", block b) ]
  | TMacroInvocation (id, lp, args, rp) ->
    Obj [ ("t", Str "invoke"); ("id", loc_text id); ("lparen", loc_char lp); ("rparen", loc_char rp); ("args", args_e args) ]
  | TProgramCounterDefinition (star, eq, v) -> Obj [ ("t", Str "pc"); ("star", loc_char star); ("eq", loc_char eq); ("value", expr v) ]
  | TSegment (tag, id, b) -> Obj [ ("t", Str "segment"); ("tag", loc_kw tag); ("id", expr id); ("block", opt block b) ]
  | TTest (tag, id, b) -> Obj [ ("t", Str "test"); ("tag", loc_kw tag); ("id", expr id); ("block", block b) ]
  | TText (tag, enc, e) ->
    Obj [ ("t", Str "text"); ("tag", loc_kw tag);
          ("encoding", opt (fun (l : (textEncoding * text) located) -> jstr (disp_TextEncoding (fst l.data))) enc);
          ("encl", opt (loc (fun d -> jstr (disp_TextEncoding (fst d)))) enc); ("text", expr e) ]
  | TTrace (tag, parens) ->
    (match parens with
     | Some ((lp, args), rp) -> Obj [ ("t", Str "trace"); ("tag", loc_kw tag); ("lparen", loc_char lp); ("rparen", loc_char rp); ("args", args_e args) ]
     | None -> Obj [ ("t", Str "trace"); ("tag", loc_kw tag); ("lparen", Null); ("rparen", Null); ("args", Arr []) ])
  | TVariableDefinition (ty, id, eq, v) ->
    let k = (match fst ty.data with VariableType_Constant -> "const" | VariableType_Variable -> "var") in
    Obj [ ("t", Str "vardef"); ("ty", Str k); ("tyl", loc (fun d -> jstr (disp_VariableType (fst d))) ty); ("id", loc_text id);
          ("eq", loc_char eq); ("value", expr v) ]

and block (b : block_t) : json =
  match b with
  | Block (lp, inner, rp) ->
    let r = (match rp with
        | Some r -> loc_char r
        | None -> Obj [ ("d", Str "}"); ("span", sp lp.lo lp.hi); ("tr", trivia_json lp.triv) ]) in
    Obj [ ("lparen", loc_char lp); ("rparen", r); ("inner", Arr (List.map token inner)) ]

let diag_json (d : diag) : json =
  let msg = (match d.d_kind with
      | KUnexpected t -> "unexpected '" ^ utf8_of_text t ^ "'"
      | KExpect MUnterminated -> "unterminated block comment"
      | KExpect MClosing -> "expected closing delimiter"
      | KExpect MExpression -> "expected expression"
      | KExpect MConfig -> "unable to parse configuration object"
      | KExpect MNesting -> "blocks, parentheses and argument lists may be nested at most " ^ string_of_int (int_of_nat max_nesting_depth) ^ " levels deep"
      | KExpect MEmpty -> "") in
  Arr [ Str msg; jn d.d_lo; jn d.d_hi ]

let rec sx_json (s : sx) : json =
  match s with Sx (k, t, kids) -> Arr [ jn k; jstr t; Arr (List.map sx_json kids) ]

let cmd_parse (req : json) : json =
  match parse (text_of (field req "text")) with
  | Parsed (toks, ds) -> Obj [ ("r", Str "ok"); ("tokens", Arr (List.map token toks)); ("diags", Arr (List.map diag_json ds));
                              ("render", jstr (render toks)); ("show", jstr (show toks)); ("eof_rest", jstr (eof_rest toks));
                              ("skeleton", Arr (List.map sx_json (skeleton toks))) ]
  | ParsePanic -> Obj [ ("r", Str "panic") ]
  | ParseOutOfFuel -> Obj [ ("r", Str "fuel") ]

let () = main_loop [ ("parse", cmd_parse) ]

(* driver of the extracted C06 model: compiled as `open C06` + prelude.ml + this file *)
let binop_symbols = [| "+"; "-"; "*"; "/"; "%"; "<<"; ">>"; "^"; "=="; "!="; ">"; ">="; "<"; "<="; "&&"; "||" |]
let binop_of_string (s : string) : binop =
  let rec go i l = match l with
    | [] -> failwith ("binop " ^ s)
    | b :: r -> if i < Array.length binop_symbols && binop_symbols.(i) = s then b else go (i + 1) r in
  go 0 all_binops

let env_of (j : json) : env =
  let syms = List.map (fun e -> match e with
      | Arr [ p; v ] -> (List.map text_of (to_list p), DNum (to_z v))
      | _ -> failwith "bad sym") (to_list (field j "syms")) in
  { lookup = (fun p -> List.assoc_opt p syms); cur_pc = to_opt to_z (field j "pc") }

let jres = function
  | Val z -> Obj [ ("r", Str "val"); ("v", jz z) ]
  | Panic -> Obj [ ("r", Str "panic") ]
  | Ovf -> Obj [ ("r", Str "diag") ]

let jsite f = function
  | SOk a -> Obj [ ("r", Str "ok"); ("v", f a) ]
  | SDiag d -> Obj [ ("r", Str "diag"); ("d", jnat d) ]
  | SPanic -> Obj [ ("r", Str "panic") ]

let jstmt = function
  | RNothing -> Obj [ ("r", Str "nothing") ]
  | REmitted p -> Obj [ ("r", Str "emitted"); ("pc", jz p) ]
  | RDiag d -> Obj [ ("r", Str "diag"); ("d", jnat d) ]
  | RPanic -> Obj [ ("r", Str "panic") ]

let cmd_binop (req : json) : json =
  jres (apply_i64 (binop_of_string (to_str (field req "op"))) (to_z (field req "a")) (to_z (field req "b")))

let cmd_literal (req : json) : json = jres (number_value (to_z (field req "radix")) (text_of (field req "digits")))

(* a whole statement: the expression is given as text and parsed by the model's expression parser *)
let cmd_stmt (req : json) : json =
  let en = env_of (field req "env") in
  match parse_expression (text_of (field req "text")) with
  | None -> Obj [ ("r", Str "noparse") ]
  | Some (e, rest) ->
    (* "prefix": the statement parsers take the longest expression and leave the rest to the next statement *)
    if ws rest <> [] && not (to_bool (field req "prefix")) then Obj [ ("r", Str "noparse") ] else
    let ev = (match eval en e with
        | EVal None -> Str "none" | EVal (Some (SNum z)) -> jz z | EVal (Some (SStr _)) -> Str "string"
        | EErr _ -> Str "err" | EPanic -> Str "panic") in
    let r = (match to_str (field req "kind") with
        | "align" -> jstmt (stmt_align en (to_z (field req "pc")) e)
        | "data" -> jstmt (stmt_data en (to_z (field req "pc")) (to_z (field req "size")) e)
        | "pc" -> jstmt (stmt_pc_then_byte en (to_z (field req "initial")) (to_z (field req "target")) e)
        | "value" -> Obj [ ("r", Str "value") ]
        | k -> failwith ("kind " ^ k)) in
    (match r with Obj l -> Obj (l @ [ ("value", ev) ]) | j -> j)

let cmd_segment (req : json) : json = jstmt (stmt_segment_then_byte (to_z (field req "start")) (to_z (field req "pc")))

let cmd_name (req : json) : json = jsite jtext (name_from_string (text_of (field req "text")))

let cmd_loop (req : json) : json =
  let c = to_z (field req "count") in
  match jsite jz (loop_enter (to_z (field req "used")) c) with
  | Obj l -> Obj (l @ [ ("iterations", jz (loop_iterations c)) ])
  | j -> j

let graph_of (j : json) : nat list list = List.map (fun l -> List.map (fun x -> nat_of_int (to_int x)) (to_list l)) (to_list j)
let jdepth = function
  | Depth n -> Obj [ ("r", Str "depth"); ("n", jnat n) ]
  | CycleReported -> Obj [ ("r", Str "cycle_reported") ]
  | Unbounded -> Obj [ ("r", Str "unbounded") ]
let cmd_depth (req : json) : json =
  let g = graph_of (field req "graph") in
  match to_str (field req "kind") with
  | "import" -> jdepth (import_depth g)
  | _ -> jdepth (macro_depth g)

(* entering a container at the given depth: code generator / parser *)
let cmd_enter (req : json) : json =
  let d = nat_of_int (to_int (field req "depth")) in
  jsite jnat (match to_str (field req "kind") with "parser" -> parser_enter d | _ -> codegen_enter d)

let cmd_bank (req : json) : json = jsite jz (bank_padding (to_z (field req "size")) (to_z (field req "len")) (to_bool (field req "fill")))

let cmd_branch (req : json) : json =
  let cur = to_opt to_z (field req "cur") in
  jsite jz (branch_offset cur (to_z (field req "target")))

let cmd_nesting (req : json) : json = Obj [ ("nesting", jnat (nesting_depth O O (text_of (field req "text")))) ]

(* the loop of codegen() replayed over the per-pass observations of hook H1 *)
let cmd_replay (req : json) : json =
  let obs = List.map (fun o ->
      { o_errors = nat_of_int (to_int (field o "ne")); o_errors_digest = to_z (field o "e");
        o_undefined = nat_of_int (to_int (field o "nu")); o_undefined_digest = to_z (field o "u");
        (* "the pass asks for another one": symbols added and/or symbols changed, whichever the source consults *)
        o_symbols_added = (clean_needs_no_new_symbols && to_bool (field o "added")) || (clean_needs_no_changed_symbols && to_int (field o "changed") > 0);
        o_segments = nat_of_int (to_int (field o "nseg")) }) (to_list (field req "trace")) in
  let cap = (match field req "cap" with Null -> max_iterations | Str "none" -> None | j -> Some (nat_of_int (to_int j))) in
  match replay_trace cap obs with
  | Exited (n, x) ->
    Obj [ ("passes", jnat n);
          ("exit", Str (match x with ExitClean _ -> "clean" | ExitSameErrors (_, _) -> "same_errors"
                                   | ExitSameUndefined _ -> "same_undefined" | ExitCap (_, _) -> "cap")) ]
  | NoExitWithin n -> Obj [ ("passes", jnat n); ("exit", Str "noexit") ]

let cmd_clash (_ : json) : json = jsite (fun () -> Null) spanless_clash
let cmd_prg (req : json) : json = jsite (fun (a, b) -> Arr [ jz a; jz b ]) (prg_header (to_z (field req "start")))

let cmd_consts (_ : json) : json =
  Obj [ ("max_iterations", jopt jnat max_iterations); ("cap_reports_diagnostic", Bool cap_reports_diagnostic);
        ("nesting_depth_limit", jopt jnat nesting_depth_limit); ("parser_nesting_limit", jopt jnat parser_nesting_limit);
        ("loop_count_limit", jopt jz loop_count_limit); ("bank_size_limit", jopt jz bank_size_limit);
        ("nested_call_returns", Bool (match nested_call_of_same_function with CallReturns -> true | CallDeadlocks -> false)) ]

let () = main_loop [ ("binop", cmd_binop); ("literal", cmd_literal); ("stmt", cmd_stmt); ("name", cmd_name); ("segment", cmd_segment); ("loop", cmd_loop);
                     ("depth", cmd_depth); ("bank", cmd_bank); ("clash", cmd_clash); ("prg", cmd_prg); ("branch", cmd_branch); ("nesting", cmd_nesting); ("enter", cmd_enter); ("replay", cmd_replay); ("consts", cmd_consts) ]

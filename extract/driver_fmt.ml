(* driver of the extracted formatter model (unit "fmt"): JSON line protocol, see checks/fmtlib.py.
   The AST arrives in a constructor-per-array encoding produced by fmtlib.ast_to_model from the probe's AST dump
   (texts as arrays of Unicode scalar values):
     ltext = [trivia|null, text]      trivia = [["ws",t] | ["nl"] | ["c",t] | ["cpp",t] ...]
     located X = [trivia|null, X]     token/expr/factor = ["Constructor", field, ...]                            *)

let casing_of j = if to_str j = "uppercase" then Uppercase else Lowercase

let options_of (j : json) : options =
  { o_casing = casing_of (field j "mnemonic_casing");
    o_register_casing = casing_of (field j "register_casing");
    o_braces = (if to_str (field j "brace_position") = "new_line" then NewLine else SameLine);
    o_indent = nat_of_int (to_int (field j "indent"));
    o_label_margin = nat_of_int (to_int (field j "label_margin"));
    o_label_alignment = (if to_str (field j "label_alignment") = "left" then ALeft else ARight);
    o_code_margin = nat_of_int (to_int (field j "code_margin")) }

let chunk_of (j : json) : chunk =
  match to_list j with
  | [ ty; ind; s ] ->
    { c_ty = (match to_int ty with 1 -> Some Label | 2 -> Some Comment | _ -> None);
      c_indent = nat_of_int (to_int ind); c_str = text_of s }
  | _ -> failwith "bad chunk"

let jchunk (c : chunk) : json =
  Arr [ jint (match c.c_ty with None -> 0 | Some Label -> 1 | Some Comment -> 2); jnat c.c_indent; jtext c.c_str ]

(* ---------- AST decoding ---------- *)
let trivium_of (j : json) : trivia =
  match to_list j with
  | [ Str "ws"; t ] -> Whitespace (text_of t)
  | [ Str "nl" ] -> TNewLine
  | [ Str "c"; t ] -> CStyle (text_of t)
  | [ Str "cpp"; t ] -> CppStyle (text_of t)
  | _ -> failwith "bad trivia"
let otrivia_of (j : json) : trivia list option = match j with Null -> None | _ -> Some (List.map trivium_of (to_list j))
let loc_of (f : json -> 'a) (j : json) : 'a located =
  match to_list j with [ tr; d ] -> { l_trivia = otrivia_of tr; l_data = f d } | _ -> failwith "bad located"
let ltext_of = loc_of text_of
let opt_of (f : json -> 'a) (j : json) : 'a option = match j with Null -> None | _ -> Some (f j)

let istring_of (j : json) : istring =
  match to_list j with
  | [ lq; items ] ->
    { is_lquote = ltext_of lq;
      is_items = List.map (fun i -> match to_list i with
          | [ Str "s"; l ] -> IString (ltext_of l)
          | [ Str "p"; l ] -> IIdentifierPath (ltext_of l)
          | _ -> failwith "bad istring item") (to_list items) }
  | _ -> failwith "bad istring"

let rec expr_of (j : json) : expr =
  match to_list j with
  | [ Str "bin"; l; op; r ] -> BinaryExpression (loc_of expr_of l, ltext_of op, loc_of expr_of r)
  | [ Str "fac"; tn; tg; f ] -> Factor (opt_of ltext_of tn, opt_of ltext_of tg, loc_of factor_of f)
  | _ -> failwith "bad expr"
and factor_of (j : json) : factor_ =
  match to_list j with
  | [ Str "pc"; s ] -> CurrentProgramCounter (ltext_of s)
  | [ Str "parens"; lp; inner; rp ] -> ExprParens (ltext_of lp, loc_of expr_of inner, ltext_of rp)
  | [ Str "call"; n; lp; args; rp ] -> FunctionCall (ltext_of n, ltext_of lp, args_of args, ltext_of rp)
  | [ Str "id"; p; m ] -> IdentifierValue (ltext_of p, opt_of ltext_of m)
  | [ Str "num"; ty; v ] -> Number (ltext_of ty, ltext_of v)
  | [ Str "str"; s ] -> FInterpolatedString (istring_of s)
  | _ -> failwith "bad factor"
and args_of (j : json) : (expr located * ltext option) list =
  List.map (fun a -> match to_list a with [ e; c ] -> (loc_of expr_of e, opt_of ltext_of c) | _ -> failwith "bad arg") (to_list j)

let ids_of (j : json) : (ltext * ltext option) list =
  List.map (fun a -> match to_list a with [ i; c ] -> (ltext_of i, opt_of ltext_of c) | _ -> failwith "bad id arg") (to_list j)

let am_of (j : json) : addressing_mode =
  match to_str j with
  | "AbsoluteOrZp" -> AbsoluteOrZp | "Immediate" -> Immediate | "Implied" -> Implied
  | "Indirect" -> Indirect | "OuterIndirect" -> OuterIndirect | _ -> failwith "bad addressing mode"

let operand_of (j : json) : operand =
  match to_list j with
  | [ e; lc; rc; am; sfx ] ->
    { op_expr = loc_of expr_of e; op_lchar = opt_of ltext_of lc; op_rchar = opt_of ltext_of rc; op_mode = am_of am;
      op_suffix = opt_of (fun s -> match to_list s with [ c; r ] -> (ltext_of c, ltext_of r) | _ -> failwith "bad suffix") sfx }
  | _ -> failwith "bad operand"

let import_as_of (j : json) : import_as =
  match to_list j with [ t; p ] -> { ia_tag = ltext_of t; ia_path = ltext_of p } | _ -> failwith "bad import_as"

let import_args_of (j : json) : import_args =
  match to_list j with
  | [ Str "all"; star; a ] -> All (ltext_of star, opt_of import_as_of a)
  | [ Str "specific"; l ] ->
    Specific (List.map (fun x -> match to_list x with
        | [ tr; p; a; c ] -> ({ l_trivia = otrivia_of tr; l_data = { sa_path = ltext_of p; sa_as = opt_of import_as_of a } }, opt_of ltext_of c)
        | _ -> failwith "bad specific import arg") (to_list l))
  | _ -> failwith "bad import args"

let rec token_of (j : json) : token =
  match to_list j with
  | [ Str "Align"; tag; v ] -> Align (ltext_of tag, loc_of expr_of v)
  | [ Str "Assert"; tag; v; m ] -> Assert (ltext_of tag, loc_of expr_of v, opt_of istring_of m)
  | [ Str "Braces"; b ] -> Braces (block_of b)
  | [ Str "Config"; b ] -> Config (block_of b)
  | [ Str "ConfigPair"; k; e; v ] -> ConfigPair (ltext_of k, ltext_of e, loc_of token_of v)
  | [ Str "Data"; vs; sz ] -> Data (args_of vs, ltext_of sz)
  | [ Str "Definition"; tag; id; v ] -> Definition_ (ltext_of tag, ltext_of id, opt_of token_of v)
  | [ Str "Eof"; tr ] -> Eof { l_trivia = otrivia_of tr; l_data = () }
  | [ Str "Error"; e ] -> Error (ltext_of e)
  | [ Str "Expression"; e ] -> Expression (expr_of e)
  | [ Str "File"; tag; f ] -> File (ltext_of tag, istring_of f)
  | [ Str "If"; tag; v; b; te; eb ] -> If (ltext_of tag, loc_of expr_of v, block_of b, opt_of ltext_of te, opt_of block_of eb)
  | [ Str "Import"; tag; args; from; f; b ] -> Import (ltext_of tag, import_args_of args, ltext_of from, istring_of f, opt_of block_of b)
  | [ Str "Instruction"; m; op ] -> Instruction (ltext_of m, opt_of operand_of op)
  | [ Str "Label"; id; colon; b ] -> Label_ (ltext_of id, ltext_of colon, opt_of block_of b)
  | [ Str "Loop"; tag; e; b ] -> Loop (ltext_of tag, loc_of expr_of e, block_of b)
  | [ Str "MacroDefinition"; tag; id; lp; args; rp; b ] ->
    MacroDefinition (ltext_of tag, ltext_of id, ltext_of lp, ids_of args, ltext_of rp, block_of b)
  | [ Str "MacroInvocation"; id; lp; args; rp ] -> MacroInvocation (ltext_of id, ltext_of lp, args_of args, ltext_of rp)
  | [ Str "ProgramCounterDefinition"; s; e; v ] -> ProgramCounterDefinition (ltext_of s, ltext_of e, loc_of expr_of v)
  | [ Str "Segment"; tag; id; b ] -> Segment (ltext_of tag, loc_of expr_of id, opt_of block_of b)
  | [ Str "Test"; tag; id; b ] -> Test (ltext_of tag, loc_of expr_of id, block_of b)
  | [ Str "Text"; tag; enc; t ] -> Text (ltext_of tag, opt_of ltext_of enc, loc_of expr_of t)
  | [ Str "Trace"; tag; lp; args; rp ] -> Trace (ltext_of tag, opt_of ltext_of lp, args_of args, opt_of ltext_of rp)
  | [ Str "VariableDefinition"; ty; id; e; v ] -> VariableDefinition (ltext_of ty, ltext_of id, ltext_of e, loc_of expr_of v)
  | Str k :: _ -> failwith ("bad token " ^ k)
  | _ -> failwith "bad token"
and block_of (j : json) : block =
  match to_list j with
  | [ lp; inner; rp ] -> MkBlock (ltext_of lp, List.map token_of (to_list inner), ltext_of rp)
  | _ -> failwith "bad block"

(* ---------- handlers ---------- *)
let h_join (req : json) : json =
  let o = options_of (field req "fmt") in
  let cs = List.map chunk_of (to_list (field req "chunks")) in
  Obj [ ("joined", jtext (join_chunks cs o)) ]

(* model of CodeFormatter::format on an AST: the chunk list and the formatted text *)
let h_format (req : json) : json =
  let o = options_of (field req "fmt") in
  let ts = List.map token_of (to_list (field req "tokens")) in
  let cs = format_chunks o ts in
  Obj [ ("chunks", jlist jchunk cs); ("formatted", jtext (join_chunks cs o)) ]

(* the decidable classes that guard the theorems, and the parser invariants the theorems assume *)
let h_classify (req : json) : json =
  let ts = List.map token_of (to_list (field req "tokens")) in
  let classes =
    (if known_lbrace_trivia ts then [ Str "Known_lbrace_trivia" ] else [])
    @ (if import_arg_trivia ts then [ Str "import_arg_trivia" ] else [])
    @ (if known_same_line_statements ts then [ Str "Known_same_line_statements" ] else [])
    @ (if known_multiline_comment ts then [ Str "Known_multiline_comment" ] else []) in
  Obj [ ("classes", Arr classes); ("wf", Bool (wf_tokens ts));
        ("all_comments", jlist jtext (all_comments ts)); ("emitted_comments", jlist jtext (emitted_comments ts));
        ("no_lbrace_comments", jlist jtext (tokens_comments false true ts)) ]

(* C13: the chunk list describing the lines join_chunks emitted, and whether the input is in the theorem's domain *)
let h_rechunk (req : json) : json =
  let o = options_of (field req "fmt") in
  let cs = List.map chunk_of (to_list (field req "chunks")) in
  Obj [ ("rechunked", jlist jchunk (rechunk cs o)); ("stable", Bool (stable_chunks cs)) ]

let h_nows (req : json) : json = Obj [ ("nows", jtext (nows (text_of (field req "text")))) ]

let () = main_loop [ ("join", h_join); ("format", h_format); ("classify", h_classify); ("rechunk", h_rechunk); ("nows", h_nows) ]

(* driver for the C11 unit: source map / listing / emission model and the listing spec *)

let to_nat j = nat_of_int (to_int j)

let file_of j = { f_name = to_n (field j "name"); f_src = text_of (field j "src") }
let span_of j = { sp_file = to_n (field j "file"); sp_lo = to_z (field j "lo"); sp_hi = to_z (field j "hi") }
let offset_of j =
  { o_scope = to_n (field j "scope"); o_span = span_of j; o_pc0 = to_z (field j "pc0"); o_pc1 = to_z (field j "pc1");
    o_segment = to_n (field j "seg") }
let lseg_of j =
  (to_n (field j "name"),
   { ls_lo = to_z (field j "lo"); ls_hi = to_z (field j "hi"); ls_data = text_of (field j "data"); ls_toff = to_z (field j "toff") })

let j_offset o =
  Obj [ ("scope", jn o.o_scope); ("file", jn o.o_span.sp_file); ("lo", jz o.o_span.sp_lo); ("hi", jz o.o_span.sp_hi);
        ("pc0", jz o.o_pc0); ("pc1", jz o.o_pc1); ("seg", jn o.o_segment) ]
let j_row r =
  Obj [ ("line", jnat r.r_line); ("addr", jopt jz r.r_addr); ("bytes", jlist jn r.r_bytes); ("src", Bool r.r_src) ]
let j_res f = function Ok x -> f x | Panic -> Str "panic"

let h_listing req =
  let cm = List.map file_of (to_list (field req "files")) in
  let sm = List.map offset_of (to_list (field req "sm")) in
  let segs = List.map lseg_of (to_list (field req "segs")) in
  let ns = List.map to_int (to_list (field req "ns")) in
  let src_of name = match List.filter (fun f -> f.f_name = name) cm with f :: _ -> f.f_src | [] -> [] in
  let ems = List.map (fun j ->
      let file = to_n (field j "file") in
      { em_file = file; em_line = spec_line (src_of file) (to_z (field j "lo")); em_addr = to_z (field j "addr");
        em_bytes = text_of (field j "bytes") }) (to_list (field req "ems")) in
  (* to_listing once per width; the text is render_listing applied to each file's rows, which is what to_listing_text
     does (same composition: mapM over the code map in order) *)
  let results = List.map (fun n -> (n, to_listing cm sm segs (nat_of_int n))) ns in
  let model = List.map (fun (n, res) ->
      (string_of_int n, j_res (fun l -> Arr (List.map (fun (name, rows) -> Arr [ jn name; jlist j_row rows ]) l)) res)) results in
  let text = List.map (fun (n, res) ->
      (string_of_int n,
       j_res (fun l -> Arr (List.map2 (fun f (name, rows) -> Arr [ jn name; jtext (render_listing (nat_of_int n) f rows) ]) cm l)) res)) results in
  let spec = List.map (fun n ->
      (string_of_int n,
       Arr (List.map (fun f -> Arr [ jn f.f_name; jlist j_row (spec_rows (nat_of_int n) (num_lines f) f.f_name ems) ]) cm))) ns in
  Obj [ ("model", Obj model); ("spec", Obj spec); ("text", Obj text) ]

let h_queries req =
  let cm = List.map file_of (to_list (field req "files")) in
  let sm = List.map offset_of (to_list (field req "sm")) in
  let addrs = List.map (fun j -> jopt j_offset (address_to_offset sm (to_z j))) (to_list (field req "addr_queries")) in
  let lines = List.map (fun q ->
      match to_list q with
      | [ f; l; c ] -> j_res (jlist j_offset) (line_col_to_offsets sm cm (to_n f) (to_nat l) (to_opt to_nat c))
      | _ -> Null) (to_list (field req "line_queries")) in
  Obj [ ("addr_answers", Arr addrs); ("line_answers", Arr lines) ]

let op_of j =
  match to_str (field j "op") with
  | "emit" -> OEmit (span_of j, text_of (field j "bytes"))
  | "setpc" -> OSetPc (to_z (field j "pc"))
  | "segment" -> OSegment (to_n (field j "name"))
  | "scope" -> OScope (to_n (field j "scope"))
  | "macro_begin" -> OMacroBegin (to_n (field j "scope"), span_of j)
  | _ -> OMacroEnd

let h_emit req =
  let segs = List.map (fun j -> (to_n (field j "name"), seg_new (to_z (field j "initial_pc")) (to_z (field j "target")))) (to_list (field req "segs")) in
  let c0 = { c_segments = segs; c_current = to_opt to_n (field req "current"); c_scope = to_n (field req "scope"); c_sm = [];
             c_macros = []; c_move = to_bool (field req "move") } in
  let ops = List.map op_of (to_list (field req "ops")) in
  let j_ctx c =
    [ ("sm", jlist j_offset c.c_sm);
      ("segs", Arr (List.map (fun (name, s) ->
           Obj [ ("name", jn name); ("lo", jz s.ls_lo); ("hi", jz s.ls_hi); ("data", jlist jn s.ls_data); ("toff", jz s.ls_toff) ])
           (view_segments c))) ] in
  match run ops c0 with
  | Done c -> Obj (("result", Str "done") :: j_ctx c)
  | SegmentOutOfRange c -> Obj (("result", Str "out_of_range") :: j_ctx c)
  | PanicNoSegment -> Obj [ ("result", Str "panic_no_segment") ]
  | PanicMacroStack -> Obj [ ("result", Str "panic_macro_stack") ]

(* the Known_ class of the .lst name collision finding, evaluated by the Coq predicate: paths = [[dir, stem], ...] *)
let h_lstnames req =
  let paths = List.map (fun j -> match to_list j with [ d; s ] -> (to_n d, to_n s) | _ -> (to_n Null, to_n Null)) (to_list (field req "paths")) in
  Obj [ ("collision", Bool (known_listing_name_collision paths)) ]

(* the width guard at the head of to_listing *)
let h_widths req =
  Obj [ ("accepted", Obj (List.map (fun j -> let n = to_int j in (string_of_int n, Bool (width_accepted (nat_of_int n)))) (to_list (field req "ns")))) ]

let () = main_loop [ ("widths", h_widths); ("listing", h_listing); ("queries", h_queries); ("emit", h_emit); ("lstnames", h_lstnames) ]

(* mosmodel_c14: line-protocol driver around the extracted C14 model (model/Lsp.v) and the LSP decoder of spec/LspSpec.v.
   compiled as `open C14` + prelude.ml + this file. *)

let jpanic = Obj [ ("panic", Bool true) ]
let jok v = Obj [ ("ok", v) ]
let nat_field req k = nat_of_int (to_int (field req k))
let alnum_of req : n -> bool =
  let l = List.map to_int (to_list (field req "alnum")) in
  fun c -> List.mem (small_of_z (Z.of_N c)) l
let jpair (a, b) = Arr [ jnat a; jnat b ]

(* ---- Part A/B: strings and the code map ---- *)
let cmd_str req =
  let t = text_of (field req "text") in
  let n = nat_field req "n" in
  Obj [ ("byte_len", jnat (byte_len t));
        ("slice_to", (match str_slice_to t n with Ok a -> jok (jtext a) | Panic -> jpanic));
        ("split_at", (match str_split_at t n with Ok (a, b) -> jok (Arr [ jtext a; jtext b ]) | Panic -> jpanic)) ]

let cmd_codemap req =
  let t = text_of (field req "text") in
  let lines_q = List.map (fun j -> nat_of_int (to_int j)) (to_list (field req "lines")) in
  let pos_q = List.map (fun j -> nat_of_int (to_int j)) (to_list (field req "positions")) in
  Obj [ ("num_lines", jnat (num_lines t));
        ("line_starts", jlist jnat (lines t));
        ("source_line", jlist (fun l -> match source_line t l with Ok a -> jok (jtext a) | Panic -> jpanic) lines_q);
        ("find_line_col", jlist (fun p -> match find_line_col t p with Ok lc -> jok (jpair lc) | Panic -> jpanic) pos_q) ]

(* ---- Part C: client positions ---- *)
let cmd_positions req =
  let t = text_of (field req "text") in
  let al = alnum_of req in
  let one j =
    let l = nat_of_int (to_int (field j "line")) and c = nat_of_int (to_int (field j "col")) in
    Obj [ ("prepare", (match prepare_rename_range al t l c with
                       | Ok None -> jok Null | Ok (Some p) -> jok (jpair p) | Panic -> jpanic));
          ("scope", (match completion_scope al t l c with
                     | Ok None -> jok Null | Ok (Some s) -> jok (jtext s) | Panic -> jpanic)) ] in
  Obj [ ("results", jlist one (to_list (field req "positions"))) ]

(* ---- Part D: to_deltas ---- *)
let loc_of j =
  match List.map (fun x -> nat_of_int (to_int x)) (to_list j) with
  | [ bl; bc; el; ec; ty ] -> { b_line = bl; b_col = bc; e_line = el; e_col = ec; s_ty = ty }
  | _ -> failwith "span must be [b_line,b_col,e_line,e_col,ty]"
let jtok t = Arr [ jnat t.delta_line; jnat t.delta_start; jnat t.tok_len; jnat t.tok_ty ]
let jabs a = Arr [ jnat a.a_line; jnat a.a_start; jnat a.a_len; jnat a.a_ty ]
let tok_of j =
  match List.map (fun x -> nat_of_int (to_int x)) (to_list j) with
  | [ dl; ds; ln; ty ] -> { delta_line = dl; delta_start = ds; tok_len = ln; tok_ty = ty }
  | _ -> failwith "token must be [delta_line,delta_start,length,type]"

let cmd_deltas req =
  let lc = List.map (fun x -> nat_of_int (to_int x)) (to_list (field req "line_chars")) in
  let line_chars l = (try List.nth lc (int_of_nat l) with _ -> O) in
  let toks = List.map loc_of (to_list (field req "toks")) in
  match to_deltas line_chars toks with
  | Panic -> jpanic
  | Ok out -> Obj [ ("ok", jlist jtok out); ("decoded", jlist jabs (decode out)) ]

let cmd_decode req = Obj [ ("decoded", jlist jabs (decode (List.map tok_of (to_list (field req "data"))))) ]

(* ---- Part E: bookkeeping over a symbolic analysis ----
   path = int; analysis = index into the table of analyses the check supplies (one per distinct overlay, with the files of its
   tree); diag = (analysis, path); request = int; response = string naming what produced it *)
let cmd_run req =
  let npaths = to_int (field req "npaths") in
  let opt_text j = (match j with Null -> None | j -> Some (text_of j)) in
  let disk_l = List.map opt_text (to_list (field req "disk")) in
  let disk p = (try List.nth disk_l p with _ -> None) in
  let analyses = List.map (fun a -> (List.map opt_text (to_list (field a "key")), List.map to_int (to_list (field a "tree"))))
      (to_list (field req "analyses")) in
  let key_of f = List.init npaths f in
  let analyze f =
    let k = key_of f in
    let rec go i = function [] -> failwith "analysis of an overlay the check did not supply" | (k', _) :: r -> if k = k' then i else go (i + 1) r in
    go 0 analyses in
  let tree_files a = snd (List.nth analyses a) in
  let diags_of a p = [ (a, p) ] in
  let tree_text a p = if List.mem p (tree_files a) then (try List.nth (fst (List.nth analyses a)) p with _ -> None) else None in
  let rename_some = List.map to_bool (to_list (field req "rename_some")) in
  let answer a _ = Printf.sprintf "A:%d" a in
  let rename_answer a r = if (try List.nth rename_some r with _ -> false) then Some (Printf.sprintf "R:%d" a) else None in
  let codelens f _ = Printf.sprintf "L:%d" (analyze f) in
  let prepare_answer a _ (s, e) = Printf.sprintf "P:%d:%d:%d" a (int_of_nat s) (int_of_nat e) in
  let completion_answer a _ sc = Printf.sprintf "C:%d:%s" a
      (match sc with None -> "-" | Some t -> String.concat "," (List.map (fun c -> string_of_int (small_of_z (Z.of_N c))) t)) in
  let al = alnum_of req in
  let uri_of j = (match field j "path" with Null -> OtherUri | p -> FileUri (to_int p)) in
  let event_of j =
    match to_str (field j "ev") with
    | "open" -> DidOpen (uri_of j, text_of (field j "text"))
    | "change" -> DidChange (uri_of j, text_of (field j "text"))
    | "close" -> DidClose (uri_of j)
    | _ ->
      let k = (match to_str (field j "kind") with
          | "prepare" -> RPrepareRename | "completion" -> RCompletion | "rename" -> RRename | "codelens" -> RCodeLens | _ -> ROther) in
      Req (k, uri_of j, nat_of_int (to_int (field j "line")), nat_of_int (to_int (field j "col")), to_int (field j "rid")) in
  let st_json s =
    Obj [ ("ana", jint s.ana);
          ("files", jlist (fun (p, _) -> jint p) s.files);
          ("published", jlist jint s.published_files);
          ("shown", jlist (fun (p, ds) -> Arr [ jint p; jlist (fun (a, q) -> Arr [ jint a; jint q ]) ds ]) s.shown);
          ("responses", jint (List.length s.log));
          ("last", (match s.log with Some r :: _ -> Str r | _ -> Null)) ] in
  let eqb (a : int) (b : int) = a = b in
  let stp s e = step eqb analyze disk tree_files diags_of tree_text answer "null" rename_answer codelens prepare_answer completion_answer al s e in
  let rec go s evs acc =
    match evs with
    | [] -> Obj [ ("states", Arr (List.rev acc)) ]
    | e :: r -> (match stp s (event_of e) with
        | Panic -> Obj [ ("states", Arr (List.rev acc)); ("panic_at", jint (List.length acc)) ]
        | Ok s' -> go s' r (st_json s' :: acc)) in
  let s0 = init eqb analyze disk in
  match go s0 (to_list (field req "events")) [] with
  | Obj l -> Obj (("init", st_json s0) :: l)
  | j -> j

let () = main_loop [ ("str", cmd_str); ("codemap", cmd_codemap); ("positions", cmd_positions); ("deltas", cmd_deltas);
                     ("decode", cmd_decode); ("run", cmd_run) ]

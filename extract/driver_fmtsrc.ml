(* driver of the extracted pipeline parse -> project -> format (unit "fmtsrc"): source text in, formatted text out *)

let casing_of j = if to_str j = "uppercase" then Uppercase else Lowercase

let options_of (j : json) : options =
  { o_casing = casing_of (field j "mnemonic_casing");
    o_register_casing = casing_of (field j "register_casing");
    o_braces = (if to_str (field j "brace_position") = "new_line" then NewLine else SameLine);
    o_indent = nat_of_int (to_int (field j "indent"));
    o_label_margin = nat_of_int (to_int (field j "label_margin"));
    o_label_alignment = (if to_str (field j "label_alignment") = "left" then ALeft else ARight);
    o_code_margin = nat_of_int (to_int (field j "code_margin")) }

(* format_source: null = parse diagnostics (or the parser model ran out of fuel / panicked);
   shaped = spec/FormatSource.v's parser_shaped on the parsed token list (the hypothesis of C12_source_chars_partial) *)
let h_format_source (req : json) : json =
  let o = options_of (field req "fmt") in
  let text = text_of (field req "text") in
  let shaped = match source_shaped text with Some b -> Bool b | None -> Null in
  match format_source o text with
  | Some t -> Obj [ ("formatted", jtext t); ("shaped", shaped) ]
  | None -> Obj [ ("formatted", Null); ("shaped", shaped) ]

let () = main_loop [ ("format_source", h_format_source) ]

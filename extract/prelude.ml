
(* ---------- minimal JSON ---------- *)
type json = Null | Bool of bool | Num of string | Str of string | Arr of json list | Obj of (string * json) list

exception Parse_error of string

let parse_json (s : string) : json =
  let n = String.length s in
  let i = ref 0 in
  let peek () = if !i < n then s.[!i] else '\000' in
  let rec ws () = if !i < n && (s.[!i] = ' ' || s.[!i] = '\t' || s.[!i] = '\n' || s.[!i] = '\r') then (incr i; ws ()) in
  let expect c = if peek () = c then incr i else raise (Parse_error (Printf.sprintf "expected %c at %d" c !i)) in
  let rec value () =
    ws ();
    match peek () with
    | '{' -> incr i; ws ();
      if peek () = '}' then (incr i; Obj [])
      else begin
        let rec members acc =
          ws (); let k = str () in ws (); expect ':'; let v = value () in ws ();
          if peek () = ',' then (incr i; members ((k, v) :: acc))
          else (expect '}'; Obj (List.rev ((k, v) :: acc))) in
        members []
      end
    | '[' -> incr i; ws ();
      if peek () = ']' then (incr i; Arr [])
      else begin
        let rec elems acc =
          let v = value () in ws ();
          if peek () = ',' then (incr i; elems (v :: acc))
          else (expect ']'; Arr (List.rev (v :: acc))) in
        elems []
      end
    | '"' -> Str (str ())
    | 't' -> i := !i + 4; Bool true
    | 'f' -> i := !i + 5; Bool false
    | 'n' -> i := !i + 4; Null
    | _ ->
      let st = !i in
      while !i < n && (match s.[!i] with '0'..'9' | '-' | '+' | '.' | 'e' | 'E' -> true | _ -> false) do incr i done;
      if !i = st then raise (Parse_error (Printf.sprintf "unexpected char at %d" st));
      Num (String.sub s st (!i - st))
  and str () =
    expect '"';
    let b = Buffer.create 16 in
    let rec go () =
      if !i >= n then raise (Parse_error "unterminated string");
      let c = s.[!i] in
      incr i;
      if c = '"' then ()
      else if c = '\\' then begin
        let e = s.[!i] in incr i;
        (match e with
         | 'n' -> Buffer.add_char b '\n' | 't' -> Buffer.add_char b '\t' | 'r' -> Buffer.add_char b '\r'
         | 'b' -> Buffer.add_char b '\b' | 'f' -> Buffer.add_char b '\012'
         | 'u' -> let h = int_of_string ("0x" ^ String.sub s !i 4) in i := !i + 4;
           if h < 128 then Buffer.add_char b (Char.chr h) else Buffer.add_char b '?'
         | c -> Buffer.add_char b c);
        go ()
      end else (Buffer.add_char b c; go ()) in
    go (); Buffer.contents b in
  let v = value () in v

let rec print_json (b : Buffer.t) (j : json) : unit =
  match j with
  | Null -> Buffer.add_string b "null"
  | Bool true -> Buffer.add_string b "true"
  | Bool false -> Buffer.add_string b "false"
  | Num s -> Buffer.add_string b s
  | Str s ->
    Buffer.add_char b '"';
    String.iter (fun c ->
        match c with
        | '"' -> Buffer.add_string b "\\\"" | '\\' -> Buffer.add_string b "\\\\"
        | '\n' -> Buffer.add_string b "\\n" | '\r' -> Buffer.add_string b "\\r" | '\t' -> Buffer.add_string b "\\t"
        | c when Char.code c < 32 -> Buffer.add_string b (Printf.sprintf "\\u%04x" (Char.code c))
        | c -> Buffer.add_char b c) s;
    Buffer.add_char b '"'
  | Arr l -> Buffer.add_char b '['; List.iteri (fun k x -> if k > 0 then Buffer.add_char b ','; print_json b x) l; Buffer.add_char b ']'
  | Obj l ->
    Buffer.add_char b '{';
    List.iteri (fun k (key, x) -> if k > 0 then Buffer.add_char b ','; print_json b (Str key); Buffer.add_char b ':'; print_json b x) l;
    Buffer.add_char b '}'

let field (j : json) (k : string) : json = match j with Obj l -> (try List.assoc k l with Not_found -> Null) | _ -> Null
let to_list = function Arr l -> l | _ -> []
let to_str = function Str s -> s | _ -> ""
let to_bool = function Bool b -> b | _ -> false

(* ---------- numbers: decimal text <-> Coq positive/N/Z ---------- *)
let rec pos_of_int (k : int) : positive =
  if k <= 1 then XH else if k land 1 = 0 then XO (pos_of_int (k lsr 1)) else XI (pos_of_int (k lsr 1))
let z_of_small (k : int) : z = if k = 0 then Z0 else if k > 0 then Zpos (pos_of_int k) else Zneg (pos_of_int (- k))
let z10 = z_of_small 10
let z_of_string (s : string) : z =
  let neg = String.length s > 0 && s.[0] = '-' in
  let acc = ref Z0 in
  String.iter (fun c -> match c with
      | '0'..'9' -> acc := Z.add (Z.mul !acc z10) (z_of_small (Char.code c - 48))
      | _ -> ()) s;
  if neg then Z.opp !acc else !acc
let rec int_of_pos (p : positive) : int = match p with XH -> 1 | XO q -> 2 * int_of_pos q | XI q -> 2 * int_of_pos q + 1
let small_of_z (x : z) : int = match x with Z0 -> 0 | Zpos p -> int_of_pos p | Zneg p -> - (int_of_pos p)
let string_of_z (x : z) : string =
  match x with
  | Z0 -> "0"
  | _ ->
    let neg = (match x with Zneg _ -> true | _ -> false) in
    let a = ref (if neg then Z.opp x else x) in
    let b = Buffer.create 20 in
    let digits = ref [] in
    while !a <> Z0 do
      let d = small_of_z (Z.modulo !a z10) in
      digits := d :: !digits;
      a := Z.div !a z10
    done;
    if neg then Buffer.add_char b '-';
    List.iter (fun d -> Buffer.add_char b (Char.chr (48 + d))) !digits;
    Buffer.contents b
let to_z (j : json) : z = match j with Num s -> z_of_string s | Str s -> z_of_string s | _ -> Z0
let to_n (j : json) : n = Z.to_N (to_z j)
let to_int (j : json) : int = small_of_z (to_z j)
let rec nat_of_int (k : int) : nat = if k <= 0 then O else S (nat_of_int (k - 1))
let rec int_of_nat (k : nat) : int = match k with O -> 0 | S m -> 1 + int_of_nat m
let jz (x : z) : json = Num (string_of_z x)
let jn (x : n) : json = Num (string_of_z (Z.of_N x))
let jint (k : int) : json = Num (string_of_int k)
let jnat (k : nat) : json = Num (string_of_int (int_of_nat k))
let jopt f = function Some x -> f x | None -> Null
let jlist f l = Arr (List.map f l)
let to_opt f = function Null -> None | j -> Some (f j)
let text_of (j : json) : n list = List.map to_n (to_list j)
let jtext (t : n list) : json = Arr (List.map jn t)

(* ---------- main loop: a unit's driver ends with `let () = main_loop [ ("cmd", handler); ... ]` ---------- *)
let main_loop (handlers : (string * (json -> json)) list) : unit =
  (try
     while true do
       let line = input_line stdin in
       if String.trim line <> "" then begin
         let reply =
           try
             let req = parse_json line in
             let cmd = to_str (field req "cmd") in
             (match List.assoc_opt cmd handlers with
              | Some h -> h req
              | None -> Obj [ ("bad_request", Str ("unknown cmd " ^ cmd)) ])
           with
           | Parse_error e -> Obj [ ("bad_request", Str e) ]
           | Stack_overflow -> Obj [ ("model_error", Str "stack overflow") ]
           | Not_found -> Obj [ ("model_error", Str "not found") ]
           | Failure e -> Obj [ ("model_error", Str e) ]
           | Invalid_argument e -> Obj [ ("model_error", Str e) ] in
         let b = Buffer.create 256 in
         print_json b reply;
         Buffer.add_char b '\n';
         print_string (Buffer.contents b);
         flush stdout
       end
     done
   with End_of_file -> ())

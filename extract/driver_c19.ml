(* driver_c19.ml -- C19: trace inclusion.  The debug-adapter protocol model (model/Dap.v, extracted) is instantiated with the
   uninterrupted run of the session's program as its CPU (cpu = instruction index; pc / opcode / stack pointer / return-address
   guess per index supplied by the caller).  `accept` searches a schedule of model actions whose observations are the
   observed request / response / event sequence.  Every state change goes through the extracted `step_act`; the search
   strategy below (when to let the machine thread run) is not trusted: it can only fail to find a schedule.

   request  {"cmd":"accept","protocol":"StateHeld"|"Legacy","reset_lcp":bool,"pc":[..],"sp":[..],"op":[..],"ret":[..],"fuel":n,"items":[item..]}
   item     ["req", kind, arg] | ["resp", kind, payload] | ["event", name]
            kind: configurationDone continue pause stepIn next stepOut setBreakpoints stackTrace registers evaluate
            arg (setBreakpoints): [[lo,hi],..];  payload: stackTrace -> pc | null (no frame); registers -> index | null (unchecked);
            run-control kinds -> "error" when an error response was observed
            name: stopped_breakpoint stopped_step continued output terminated
   reply    {"accepted":true,"actions":n} | {"accepted":false,"at":item index,"why":text} *)

exception Reject of int * string

let accept (req : json) : json =
  let arr k = Array.of_list (List.map to_int (to_list (field req k))) in
  let pcs = arr "pc" and sps = arr "sp" and ops = arr "op" and rets = arr "ret" in
  let n = Array.length pcs in
  let zpcs = Array.map z_of_small pcs in
  let proto = if to_str (field req "protocol") = "Legacy" then Legacy else StateHeld in
  let reset = (match field req "reset_lcp" with Bool b -> b | _ -> true) in
  let fuel = nat_of_int (let f = to_int (field req "fuel") in if f <= 0 then 100000 else f) in
  let chk i = if i < 0 || i >= n then failwith (Printf.sprintf "trajectory too short: index %d of %d" i n) in
  let pcf (i : int) : z = chk i; zpcs.(i) in
  let stepf (i : int) : int = i + 1 in
  let finf (i : int) : bool = chk i; ops.(i) = 0 in
  let tz (a : int array) (x : z) : z = let i = small_of_z x in chk i; z_of_small a.(i) in
  let so (i : int) : int =
    match step_over (tz ops) fuel (z_of_small i) with Some j -> small_of_z j | None -> failwith "model: step_over does not return within the fuel" in
  let sout (i : int) : int =
    match step_out (tz ops) fuel (z_of_small i) with Some j -> small_of_z j | None -> failwith "model: step_out does not return within the fuel" in
  let items = Array.of_list (to_list (field req "items")) in
  let nitems = Array.length items in
  (* next observed instruction index at or after item k *)
  let next_idx = Array.make (nitems + 1) (-1) in
  for k = nitems - 1 downto 0 do
    next_idx.(k) <- next_idx.(k + 1);
    (match items.(k) with
     | Arr [ Str "resp"; Str "registers"; Num _ as v ] -> next_idx.(k) <- to_int v
     | _ -> ())
  done;
  let nact = ref 0 in
  let act k (s : int st) (a : action) : int st * int obs list =
    incr nact;
    match step_act pcf stepf finf so sout reset proto a s with
    | Some r -> r
    | None -> raise (Reject (k, "model action not enabled")) in
  let quiet k s a = let (s', o) = act k s a in if o <> [] then raise (Reject (k, "unexpected observation")); s' in
  (* one iteration of the machine thread's loop *)
  let iteration k s =
    let s = quiet k s M_read_state in
    if s.ml = MRead then begin
      let s = quiet k s M_check_bp in
      if s.ml = MChecked then quiet k s M_execute else s
    end else s in
  (* The search keeps the machine thread at the top of its loop, except that a setBreakpoints may be served between the
     breakpoint check and the execute of one iteration (ml = MChecked: neither S_set_bps nor S_regs needs the state lock).
     `settle` completes such an iteration; everything that needs the lock or more machine progress settles first. *)
  let settle k (s : int st) = if s.ml = MChecked then quiet k s M_execute else s in
  let can_run (s : int st) = s.rs = Running && s.ml = MTop && s.conn in
  let rec advance_to k s target =
    if s.ml = MChecked && s.cp < target then advance_to k (settle k s) target
    else if can_run s && s.cp < target then advance_to k (iteration k s) target else s in
  (* ... stopping in front of an instruction whose breakpoint check would publish Stopped *)
  let would_hit (s : int st) = hit s.bps (pcf s.cp) && not (opt_eqb s.lcp (pcf s.cp)) in
  let rec advance_quiet k s target =
    if s.ml = MChecked && s.cp < target then advance_quiet k (settle k s) target
    else if can_run s && s.cp < target && not (would_hit s) then advance_quiet k (iteration k s) target else s in
  let rec advance_until_publish k s bound =
    if s.ml = MChecked then advance_until_publish k (settle k s) bound
    else if can_run s && s.chan = [] && s.cp <= bound then advance_until_publish k (iteration k s) bound else s in
  let kind_of = function
    | "configurationDone" -> RConfigDone | "continue" -> RContinue | "pause" -> RPause
    | "stepIn" -> RStep KIn | "next" -> RStep KOver | "stepOut" -> RStep KOut
    | "stackTrace" -> RStackTrace | "registers" -> RRegisters | "evaluate" -> REvaluate
    | k -> failwith ("unknown request kind " ^ k) in
  let ev_name = function
    | EvStoppedBreakpoint -> "stopped_breakpoint" | EvStoppedStep -> "stopped_step" | EvContinued -> "continued"
    | EvOutput -> "output" | EvTerminated -> "terminated" in
  let ranges j = List.map (fun p -> match to_list p with [ a; b ] -> (to_z a, to_z b) | _ -> failwith "bad range") (to_list j) in
  (* depth-first over the few choice points; returns unit or raises Reject (deepest failure is reported) *)
  let best = ref (-1, "") in
  let note k why = if k > fst !best then best := (k, why) in
  let rec go k (s : int st) (pending : json option) : bool =
    if k >= nitems then true
    else
      try
        let target = if next_idx.(k) >= 0 then next_idx.(k) else s.cp in
        match items.(k) with
        | Arr [ Str "req"; Str _; _ ] as it ->
          if pending <> None then raise (Reject (k, "request sent while another is outstanding"));
          go (k + 1) s (Some it)
        | Arr [ Str "event"; Str name ] ->
          let s = if s.chan = [] then advance_until_publish k s target else s in
          let rec deliver s =
            if s.chan = [] then raise (Reject (k, "event `" ^ name ^ "` is not explained by the model (no machine event pending)"));
            let (s', o) = act k s S_event in
            match o with
            | [] -> deliver s'
            | [ OEvent e ] -> if ev_name e = name then s' else raise (Reject (k, "model delivers `" ^ ev_name e ^ "`, observed `" ^ name ^ "`"))
            | _ -> raise (Reject (k, "unexpected observation")) in
          go (k + 1) (deliver s) pending
        | Arr [ Str "resp"; Str kind; payload ] ->
          (match pending with
           | Some (Arr [ _; Str k2; arg ]) when k2 = kind ->
             let finish s = go (k + 1) s None in
             let s = if kind = "registers" || kind = "setBreakpoints" then s else settle k s in
             (match kind with
              | "configurationDone" ->
                let s = quiet k s (S_req RConfigDone) in
                let (s, o) = act k s S_start in
                if o <> [ OResp RConfigDone ] then raise (Reject (k, "response mismatch")); finish s
              | "continue" when payload <> Str "error" ->
                let s = quiet k s (S_req RContinue) in
                let (s, o) = act k s S_resume in
                if o <> [ OResp RContinue ] then raise (Reject (k, "response mismatch")); finish s
              | ("pause" | "stepIn" | "next" | "stepOut" | "continue") when payload = Str "error" ->
                (* refused: the machine is still launching *)
                let r = kind_of kind in
                let (s, o) = act k s (S_req r) in
                if o <> [ OError r ] then raise (Reject (k, "error response observed, the model serves the request")); finish s
              | "pause" | "stepIn" | "next" | "stepOut" ->
                let r = kind_of kind in
                let serve s =
                  let s = quiet k s (S_req r) in
                  let s = if kind = "pause" then s else quiet k s S_step_exec in
                  let (s, o) = act k s S_pause_read_pc in
                  let (s, o) = if proto = Legacy then act k s S_pause_publish else (s, o) in
                  if o <> [ OResp r ] then raise (Reject (k, "response mismatch")); finish s in
                if kind = "pause" then begin
                  (* the machine thread has reached the position observed next; a breakpoint there may or may not have
                     fired before the pause took the state lock *)
                  let s1 = advance_to k s target in
                  (try serve s1 with Reject (k', why) -> note k' why; false)
                  || (can_run s1 && would_hit s1 && serve (iteration k s1))
                end else serve s
              | "setBreakpoints" ->
                let b = ranges arg in
                let apply s =
                  let s = quiet k s (S_req (RSetBps b)) in
                  let (s, o) = act k s S_set_bps in
                  if o <> [ OResp (RSetBps b) ] then raise (Reject (k, "response mismatch")); finish s in
                if s.rs = Running then begin
                  (* the new set takes effect somewhere before the next observed position.  If any position explains the
                     trace, so does the latest one that lets no breakpoint of the old set fire: either just before or just
                     after the machine thread's check there *)
                  let s1 = advance_quiet k s target in
                  let checked s =       (* the iteration's check done, its execute still pending *)
                    let s = quiet k s M_read_state in
                    if s.ml = MRead then quiet k s M_check_bp else s in
                  (try apply s1 with Reject (k', why) -> note k' why; false)
                  || (can_run s1 && (let s2 = checked s1 in s2.ml = MChecked && (try apply s2 with Reject (k', why) -> note k' why; false)))
                  || (can_run s1 && apply (iteration k s1))
                end else apply s
              | "stackTrace" ->
                let s = (match payload with Null -> s | _ -> if s.rs = Running then advance_until_publish k s target else s) in
                let s = quiet k s (S_req RStackTrace) in
                let (s, o) = act k s S_stack in
                (match o, payload with
                 | [ OStack (Stopped q) ], (Num _ as p) when q = to_z p -> finish s
                 | [ OStack (Stopped q) ], Num _ -> raise (Reject (k, "stackTrace: model reports $" ^ string_of_z q ^ ", observed another address"))
                 | [ OStack (Stopped _) ], _ -> raise (Reject (k, "stackTrace: model reports a frame, none observed"))
                 | [ OStack _ ], Null -> finish s
                 | _ -> raise (Reject (k, "stackTrace: model reports no frame, one observed")))
              | "registers" ->
                let s = (match payload with Num _ -> if s.rs = Running then advance_to k s (to_int payload) else s | _ -> s) in
                let s = quiet k s (S_req RRegisters) in
                let (s, o) = act k s S_regs in
                (match o, payload with
                 | [ ORegs c ], Num _ when c = to_int payload -> finish s
                 | [ ORegs c ], Num _ -> raise (Reject (k, Printf.sprintf "registers: model machine is at instruction %d, observed %d" c (to_int payload)))
                 | [ ORegs _ ], _ -> finish s
                 | _ -> raise (Reject (k, "unexpected observation")))
              | "evaluate" ->
                let s = quiet k s (S_req REvaluate) in
                let (s, _) = act k s S_eval_regs in
                let (s, _) = act k s S_eval_flags in
                let (s, _) = act k s S_eval_state in
                finish s
              | _ -> failwith ("unknown request kind " ^ kind))
           | _ -> raise (Reject (k, "response without matching request")))
        | _ -> failwith "bad item"
      with Reject (k', why) -> note k' why; false in
  let ok = go 0 (init 0) None in
  if ok then Obj [ ("accepted", Bool true); ("actions", jint !nact) ]
  else Obj [ ("accepted", Bool false); ("at", jint (fst !best)); ("why", Str (snd !best)); ("actions", jint !nact) ]

(* the model's answer to one step command on a given run (correspondence of model/DapStep.v with the real adapter) *)
let step_cmd (req : json) : json =
  let arr k = Array.of_list (List.map to_int (to_list (field req k))) in
  let pcs = arr "pc" and sps = arr "sp" and ops = arr "op" and rets = arr "ret" in
  let n = Array.length pcs in
  let tz (a : int array) (x : z) : z = let i = small_of_z x in if i < 0 || i >= n then failwith "trajectory too short" else z_of_small a.(i) in
  let fuel = nat_of_int (let f = to_int (field req "fuel") in if f <= 0 then 100000 else f) in
  let i = to_z (field req "index") in
  let r = match to_str (field req "kind") with
    | "stepIn" -> Some (exec_in (tz ops) i)
    | "next" -> step_over (tz ops) fuel i
    | "next_pinned" -> step_over_pinned (tz pcs) (tz ops) fuel i
    | "stepOut" -> step_out (tz ops) fuel i
    | "stepOut_pinned" -> step_out_pinned (tz pcs) (tz sps) (tz ops) (tz rets) fuel i
    | k -> failwith ("unknown step kind " ^ k) in
  Obj [ ("lands", jopt jz r) ]

(* the classes of the known findings, evaluated by the predicates that guard the theorems *)
let classify (req : json) : json =
  let arr k = Array.of_list (List.map to_int (to_list (field req k))) in
  let pcs = arr "pc" and rets = arr "ret" in
  let n = Array.length pcs in
  let tz (a : int array) (x : z) : z = let i = small_of_z x in if i < 0 || i >= n then failwith "trajectory too short" else z_of_small a.(i) in
  match to_str (field req "class") with
  | "Known_stepout_stack_dirty" ->
    Obj [ ("holds", Bool (known_stepout_stack_dirty (tz pcs) (tz rets) (to_z (field req "call")) (to_z (field req "index")))) ]
  | "Known_next_reenters_call_site" ->
    Obj [ ("holds", Bool (known_next_reenters_call_site (tz pcs) (to_z (field req "index")) (to_z (field req "call")))) ]
  | "Known_breakpoint_self_loop" ->
    Obj [ ("holds", Bool (known_breakpoint_self_loop (tz pcs) (to_z (field req "index")))) ]
  | c -> failwith ("unknown class " ^ c)

let () = main_loop [ ("accept", accept); ("step", step_cmd); ("classify", classify) ]
